"""Custom runners of bin/check for families that do not use the generic schedule pipeline."""
import json, os, re, hashlib, time

V = os.path.dirname(os.path.dirname(os.path.abspath(__file__)))


def enumerate_lattice(M, work):
    cfg = open(os.path.join(V, "spec/mc/MC_pricing.cfg")).read()
    rc, out, dt = M.tlc(work, "mc", "MC_pricing", cfg, "int", 4, 600)
    if "No error has been found" not in out:
        raise M.Infra("lattice enumeration failed:\n" + out[-2000:])
    cases = []
    for l in out.splitlines():
        if l.startswith('<<"CASE", '):
            cases.append(json.loads(json.loads(l[len('<<"CASE", '):-2])))
    states, trans = M.tlc_counts(out)
    M.log("MC_pricing: %d classes enumerated in %.0fs" % (len(cases), dt))
    return cases, states, trans


def run_pricing(pid, tier, seed, work, t0, M):
    P = M.PROPS[pid]
    exe = M.build_harness(work)
    cases, mstates, mtrans = enumerate_lattice(M, work)
    ops = P["ops"]
    mine = [c for c in cases if c["op"] in ops]
    total = len(mine)
    frac, draws = P["sample"][tier]
    mine.sort(key=lambda c: hashlib.sha256((str(seed) + json.dumps(c, sort_keys=True)).encode()).hexdigest())
    if frac < 1.0:
        mine = mine[: max(200, int(len(mine) * frac))]
    # split into chunks so that TLC validations run in parallel
    nchunks = max(1, min(M.NCPU // 2, len(mine) // 1500 + 1))
    traces = []
    calls = refused = 0
    import concurrent.futures
    def one(i):
        cf = os.path.join(work, "cases-%d.ndjson" % i)
        with open(cf, "w") as f:
            for c in mine[i::nchunks]:
                f.write(json.dumps(c, sort_keys=True) + "\n")
        tf = os.path.join(work, "pure-%d.ndjson" % i)
        rc, out, dt = M.run([exe, "pure", "-cases", cf, "-out", tf, "-seed", str(seed), "-draws", str(draws)], 3000)
        if rc != 0:
            raise M.Infra("pure driver failed:\n" + out[-3000:])
        st = {}
        for line in out.splitlines():
            if line.startswith("STATS "):
                st = json.loads(line[6:])
        return tf, st
    with concurrent.futures.ThreadPoolExecutor(max_workers=nchunks) as ex:
        for tf, st in ex.map(one, range(nchunks)):
            traces.append(tf)
            calls += st.get("calls", 0)
            refused += st.get("refused", 0)
    M.log("pure driver: %d calls of the real pool functions (%d refused by the code) over %d of %d classes" % (calls, refused, len(mine), total))
    results = M.validate_all(work, traces, "TracePure")
    scheds = {}
    # app-level traces (real MsgJoinPool / MsgExitPool / swaps through ABCI) carry the C0x.step.* checks
    if P.get("app_walks"):
        fam, (n, depth) = P["app_walks"]["family"], P["app_walks"][tier]
        ws = M.gen_walks(exe, work, fam, n, depth, seed)
        tr2, stats = M.replay_on_impl(exe, work, ws, seed, tag="app")
        results += M.validate_all(work, tr2, "Trace")
        for s in ws:
            scheds[s["id"]] = s
    samples = []
    for r in results[:1]:
        for ln in (2, 3):
            d = M.trace_line(r["file"], ln)
            if d:
                samples.append(d["ev"])
    cov = {"model_states": mstates, "model_transitions": mtrans, "lattice_classes_total": total, "lattice_classes_run": len(mine),
           "draws_per_class": draws, "real_function_calls": calls, "calls_refused_by_code": refused, "exhaustive": frac >= 1.0, "samples": samples, "pure_trace_files": len(traces)}
    # a failing pure call is replayed from its own event record (class + seed + draw)
    M.PURE_MODE = True
    return M.decide(pid, tier, seed, results, scheds, t0, cov, P.get("assumptions", []))


def replay_pure(rp, exe, work, M):
    ev = rp["event"]["ev"]
    cf = os.path.join(work, "case.ndjson")
    with open(cf, "w") as f:
        f.write(ev["args"]["case"] + "\n")
    tf = os.path.join(work, "pure.ndjson")
    draws = int(ev["args"].get("draw", 0)) + 1
    rc, out, dt = M.run([exe, "pure", "-cases", cf, "-out", tf, "-seed", str(rp["seed"]), "-draws", str(draws)], 600)
    res = M.validate_all(work, [tf], "TracePure")
    fails = [f for r in res for f in r["fails"] + r["known"] if f["prop"] == rp["property"]]
    for f in fails:
        print("REPLAY-FAIL property=%s check=%s kf=%s class=%s" % (rp["property"], f["check"], f.get("kf", ""), f.get("info", "")))
    if any(f["check"] == rp["failed_check"] for f in fails):
        print("reproduced: %s" % rp["failed_check"])
        return 1
    print("not reproduced on the current tree")
    return 0
