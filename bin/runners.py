"""Custom runners of bin/check for families that do not use the generic schedule pipeline."""
import json, os, re, hashlib, time, random

V = os.path.dirname(os.path.dirname(os.path.abspath(__file__)))


def enumerate_lattice(M, work):
    cfg = open(os.path.join(V, "spec/mc/MC_pricing.cfg")).read()
    rc, out, dt = M.tlc(work, "mc", "MC_pricing", cfg, "int", 4, 600)
    if "No error has been found" not in out:
        raise M.Infra("lattice enumeration failed:\n" + out[-2000:])
    cases = []
    for l in out.splitlines():
        if l.startswith('<<"CASE", '):
            cases.append(json.loads(json.loads(l[len('<<"CASE", '):-2])))
    states, trans = M.tlc_counts(out)
    M.log("MC_pricing: %d classes enumerated in %.0fs" % (len(cases), dt))
    return cases, states, trans


def run_pricing(pid, tier, seed, work, t0, M):
    P = M.PROPS[pid]
    exe = M.build_harness(work)
    cases, mstates, mtrans = enumerate_lattice(M, work)
    ops = P["ops"]
    mine = [c for c in cases if c["op"] in ops]
    total = len(mine)
    frac, draws = P["sample"][tier]
    mine.sort(key=lambda c: hashlib.sha256((str(seed) + json.dumps(c, sort_keys=True)).encode()).hexdigest())
    if frac < 1.0:
        mine = mine[: max(200, int(len(mine) * frac))]
    # split into chunks so that TLC validations run in parallel
    nchunks = max(1, min(M.NCPU // 2, len(mine) // 1500 + 1))
    traces = []
    calls = refused = 0
    import concurrent.futures
    def one(i):
        cf = os.path.join(work, "cases-%d.ndjson" % i)
        with open(cf, "w") as f:
            for c in mine[i::nchunks]:
                f.write(json.dumps(c, sort_keys=True) + "\n")
        tf = os.path.join(work, "pure-%d.ndjson" % i)
        rc, out, dt = M.run([exe, "pure", "-cases", cf, "-out", tf, "-seed", str(seed), "-draws", str(draws)], 3000)
        if rc != 0:
            raise M.Infra("pure driver failed:\n" + out[-3000:])
        st = {}
        for line in out.splitlines():
            if line.startswith("STATS "):
                st = json.loads(line[6:])
        return tf, st
    with concurrent.futures.ThreadPoolExecutor(max_workers=nchunks) as ex:
        for tf, st in ex.map(one, range(nchunks)):
            traces.append(tf)
            calls += st.get("calls", 0)
            refused += st.get("refused", 0)
    M.log("pure driver: %d calls of the real pool functions (%d refused by the code) over %d of %d classes" % (calls, refused, len(mine), total))
    results = M.validate_all(work, traces, "TracePure")
    scheds = {}
    # app-level traces (real MsgJoinPool / MsgExitPool / swaps through ABCI) carry the C0x.step.* checks
    aw = P.get("app_walks") or []
    if isinstance(aw, dict):
        aw = [aw]
    for j, w in enumerate(aw):
        fam, (n, depth) = w["family"], w[tier]
        ws = M.gen_walks(exe, work, fam, n, depth, seed)
        tr2, stats = M.replay_on_impl(exe, work, ws, seed, tag="app%d" % j)
        results += M.validate_all(work, tr2, "Trace")
        for s in ws:
            scheds[s["id"]] = s
    samples = []
    for r in results[:1]:
        for ln in (2, 3):
            d = M.trace_line(r["file"], ln)
            if d:
                samples.append(d["ev"])
    cov = {"model_states": mstates, "model_transitions": mtrans, "lattice_classes_total": total, "lattice_classes_run": len(mine),
           "draws_per_class": draws, "real_function_calls": calls, "calls_refused_by_code": refused, "exhaustive": frac >= 1.0, "samples": samples, "pure_trace_files": len(traces)}
    # a failing pure call is replayed from its own event record (class + seed + draw)
    M.PURE_MODE = True
    return M.decide(pid, tier, seed, results, scheds, t0, cov, P.get("assumptions", []))


def replay_pure(rp, exe, work, M):
    ev = rp["event"]["ev"]
    cf = os.path.join(work, "case.ndjson")
    with open(cf, "w") as f:
        f.write(ev["args"]["case"] + "\n")
    tf = os.path.join(work, "pure.ndjson")
    draws = int(ev["args"].get("draw", 0)) + 1
    rc, out, dt = M.run([exe, "pure", "-cases", cf, "-out", tf, "-seed", str(rp["seed"]), "-draws", str(draws)], 600)
    res = M.validate_all(work, [tf], "TracePure")
    fails = [f for r in res for f in r["fails"] + r["known"] if f["prop"] == rp["property"]]
    for f in fails:
        print("REPLAY-FAIL property=%s check=%s kf=%s class=%s" % (rp["property"], f["check"], f.get("kf", ""), f.get("info", "")))
    if any(f["check"] == rp["failed_check"] for f in fails):
        print("reproduced: %s" % rp["failed_check"])
        return 1
    print("not reproduced on the current tree")
    return 0


# ---------------------------------------------------------------------------------------------- C19 replicas
def _replica_traces(M, exe, work, scheds, seed, tag_prefix=""):
    """Runs the schedules on replicas A/B/C in TWO OS processes (different GOMAXPROCS, different wall-clock), merges the
    observations sorted by (schedule, kind, height, replica) and returns the merged trace file + stats."""
    sf = os.path.join(work, "rep-schedules.ndjson")
    with open(sf, "w") as f:
        for s in scheds:
            f.write(json.dumps(s) + "\n")
    outdir = os.path.join(work, "rep")
    stats = {}
    import subprocess
    procs = []
    for tag, gmp in (("p1", "3"), ("p2", "8")):
        env = dict(os.environ, GOMAXPROCS=gmp)
        procs.append((tag, subprocess.Popen([exe, "replicas", "-schedules", sf, "-out", outdir, "-seed", str(seed), "-workers", str(max(1, M.NCPU // 2)), "-tag", tag],
                                            env=env, stdout=subprocess.PIPE, stderr=subprocess.STDOUT, text=True)))
        time.sleep(1.1)  # the two processes never share a wall-clock second at start
    for tag, p in procs:
        out, _ = p.communicate(timeout=3600)
        if p.returncode != 0 or "DRIVER-PANIC" in out:
            raise M.Infra("replicas run failed (%s):\n%s" % (tag, out[-3000:]))
        for line in out.splitlines():
            if line.startswith("STATS "):
                for k, v in json.loads(line[6:]).items():
                    stats[k] = stats.get(k, 0) + v
    import glob
    recs = []
    for fn in glob.glob(os.path.join(outdir, "*.ndjson")):
        for l in open(fn):
            d = json.loads(l)
            recs.append(((d["ev"]["schedule"], d["kind"], d["ev"]["h"], d["ev"]["replica"]), l.strip()))
    recs.sort(key=lambda x: x[0])
    merged = os.path.join(work, "rep-merged.ndjson")
    with open(merged, "w") as f:
        last = None
        for key, l in recs:
            if key[0] != last:
                f.write('{"ev":{"name":"Reset","sender":"","ok":true,"args":{"schedule":%s},"replica":"","h":0},"kind":"Reset"}\n' % json.dumps(key[0]))
                last = key[0]
            f.write(l + "\n")
    return merged, stats


def run_replicas(pid, tier, seed, work, t0, M):
    P = M.PROPS[pid]
    exe = M.build_harness(work)
    # the abstract model: agreement holds for a transition that reads only store and block, and TLC finds the
    # counterexample as soon as volatile memory or process-local randomness leaks in (the model is not vacuous)
    cfg = open(os.path.join(V, "spec/mc/MC_replicas.cfg")).read()
    rc, out, dt = M.tlc(work, "mc", "MC_replicas", cfg, "int", 4, 300)
    if "No error has been found" not in out:
        raise M.Infra("MC_replicas failed:\n" + out[-2000:])
    mstates, mtrans = M.tlc_counts(out)
    for sub in (("ReadsMemory = FALSE", "ReadsMemory = TRUE"), ("Env = FALSE", "Env = TRUE")):
        rc, out2, dt = M.tlc(work, "mc", "MC_replicas", cfg.replace(*sub), "int", 4, 300)
        if "Invariant Agreement is violated" not in out2:
            raise M.Infra("MC_replicas sanity: variant %s should violate Agreement" % sub[1])
    # the branch discipline (MC_branches): agreement holds when process memory is filled from committed reads only; the variant in
    # which a read on a transaction's branch fills a cache is rejected; the model's chains become schedules
    bcfg = open(os.path.join(V, "spec/mc/MC_branches.cfg")).read()
    rc, outb, dt = M.tlc(work, "mc", "MC_branches", bcfg, "int", 4, 300)
    if "No error has been found" not in outb:
        raise M.Infra("MC_branches failed:\n" + outb[-2000:])
    bstates, btrans = M.tlc_counts(outb)
    rc, outb2, dt = M.tlc(work, "mc", "MC_branches", bcfg.replace("CacheOnBranch = FALSE", "CacheOnBranch = TRUE").replace("INVARIANT CacheCoherent\n", ""), "int", 4, 300)
    if "Invariant Agreement is violated" not in outb2:
        raise M.Infra("MC_branches sanity: the variant caching reads made on a branch should violate Agreement")
    chains = sorted(set(json.loads(l[len('<<"CHAIN", '):-2]) for l in outb.splitlines() if l.startswith('<<"CHAIN", ')))
    rnd = random.Random(seed * 131 + 7)
    if tier == "quick":
        chains = rnd.sample(chains, min(40, len(chains)))
    scheds = []
    for ci, cj in enumerate(chains):
        steps = []
        for b in json.loads(cj):
            st = {"a": "createAssetInfo", "u": "u2", "d": b["k"], "display": "NEWA"}
            if b["shape"] != "single":
                st = {"a": b["shape"], "inner": st}
            steps += [st, {"a": "block", "dt": 5}]
        scheds.append({"id": "branches-%s" % hashlib.sha1(cj.encode()).hexdigest()[:10], "scene": "chain", "steps": steps})
    for src in P["sources"]:
        n, depth = src[tier]
        scheds += M.gen_walks(exe, work, src["family"], n, depth, seed)
    ids = {s["id"]: s for s in scheds}
    mstates, mtrans = mstates + bstates, mtrans + btrans
    merged, stats = _replica_traces(M, exe, work, scheds, seed)
    results = M.validate_all(work, [merged], "TraceRep")
    M.log("replicas: %s" % stats)
    # unbounded companion of MC_branches: the branch discipline as an inductive invariant (Apalache; a missing / timed-out
    # Apalache is reported and does not fail the check)
    apa = M.inductive_check(work, "BranchesInd")
    cov = {"model_states": mstates, "model_transitions": mtrans, "harness_stats": stats, "replicas_per_schedule": 6, "apalache": apa,
           "replica_kinds": "2 OS processes (GOMAXPROCS 3 and 8, started 1.1 s apart) x {A never stopped, B independent instance, C restarted from its database after every committed block}",
           "samples": [scheds[0]] + [M.trace_line(merged, 2), M.trace_line(merged, 3)]}
    return M.decide(pid, tier, seed, results, ids, t0, cov, P.get("assumptions", []))


def replay_replicas(rp, exe, work, M):
    merged, stats = _replica_traces(M, exe, work, [rp["schedule"]], rp["seed"])
    res = M.validate_all(work, [merged], "TraceRep")
    fails = [f for r in res for f in r["fails"] if f["prop"] == rp["property"]]
    for f in fails:
        print("REPLAY-FAIL property=%s check=%s info=%s" % (rp["property"], f["check"], f.get("info", "")))
    if fails:
        print("reproduced: %s" % fails[0]["check"])
        return 1
    print("not reproduced on the current tree")
    return 0


# ---------------------------------------------------------------------------------------------- C17 authority
def run_authority(pid, tier, seed, work, t0, M):
    P = M.PROPS[pid]
    exe = M.build_harness(work)
    # 1. the running application reports its registered message types
    tj = os.path.join(work, "types.json")
    rc, out, dt = M.run([exe, "authority", "-list", tj], 600)
    if rc != 0:
        raise M.Infra("authority -list failed:\n" + out[-2000:])
    types = json.load(open(tj))
    # 2. TLC enumerates the required (type, sender class, path) combinations
    cfg = open(os.path.join(V, "spec/mc/MC_authority.cfg")).read().replace('"types.json"', '"%s"' % tj)
    rc, out, dt = M.tlc(work, "mc", "MC_authority", cfg, "big", 2, 600)
    if "No error has been found" not in out:
        raise M.Infra("MC_authority failed:\n" + out[-2000:])
    mstates, mtrans = M.tlc_counts(out)
    cases = [json.loads(json.loads(l[len('<<"CASE", '):-2])) for l in out.splitlines() if l.startswith('<<"CASE", ')]
    cf = os.path.join(work, "auth-cases.ndjson")
    with open(cf, "w") as f:
        for c in cases:
            f.write(json.dumps(c) + "\n")
    # 3. the harness delivers them to the real application
    tf = os.path.join(work, "auth-trace.ndjson")
    rc, out, dt = M.run([exe, "authority", "-cases", cf, "-out", tf, "-seed", str(seed)], 1800)
    if rc != 0:
        raise M.Infra("authority run failed:\n" + out[-3000:])
    st = {}
    for line in out.splitlines():
        if line.startswith("STATS "):
            st = json.loads(line[6:])
    M.log("authority: %d registered elys message types (%d governance-only), %d cases delivered: %s" % (
        len(types), sum(1 for t in types if t["class"] == "authority"), len(cases), st))
    # 4. TLC validates the deliveries + completeness; owner scope on ordinary traces
    results = M.validate_all(work, [tf], "TraceAuth")
    scheds = {}
    for fam, (n, depth) in P["walks"][tier].items():
        ws = M.gen_walks(exe, work, fam, n, depth, seed)
        tr2, stats = M.replay_on_impl(exe, work, ws, seed, tag="w-" + fam)
        results += M.validate_all(work, tr2, "Trace")
        for s in ws:
            scheds[s["id"]] = s
    cov = {"model_states": mstates, "model_transitions": mtrans, "registered_elys_message_types": len(types),
           "governance_only_types": sum(1 for t in types if t["class"] == "authority"), "cases_enumerated_by_tlc": len(cases),
           "accepted_from_governance": st.get("accepted_gov", 0), "pure_trace_files": 1,
           "samples": [cases[0], M.trace_line(tf, 2), M.trace_line(tf, 3)]}
    return M.decide(pid, tier, seed, results, scheds, t0, cov, P.get("assumptions", []))


def replay_authority(rp, exe, work, M):
    ev = rp["event"]["ev"]
    cf = os.path.join(work, "case.ndjson")
    with open(cf, "w") as f:
        f.write(json.dumps({"type": ev["name"], "sender": ev["args"]["senderClass"], "via": ev["args"]["via"]}) + "\n")
    tf = os.path.join(work, "auth-trace.ndjson")
    rc, out, dt = M.run([exe, "authority", "-cases", cf, "-out", tf, "-seed", str(rp["seed"])], 600)
    res = M.validate_all(work, [tf], "TraceAuth")
    fails = [f for r in res for f in r["fails"] if f["prop"] == rp["property"] and f["check"] == rp["failed_check"]]
    for f in fails:
        print("REPLAY-FAIL property=%s check=%s event=%s" % (rp["property"], f["check"], f.get("event", "")))
    if fails:
        print("reproduced: %s" % rp["failed_check"])
        return 1
    print("not reproduced on the current tree")
    return 0
