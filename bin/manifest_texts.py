"""Texts of MANIFEST.json per claimed property."""
HOOK_COMMITS = []
NOT_APPLICABLE = {}

_TB = ("Trusted base: TLC 1.8.0 + CommunityModules Json; the 60-line java.math.BigInteger override (self-tested against TLC integers at setup); "
       "the harness projection (structural copy of exported keeper getters); cosmos-sdk baseapp/bank/store. Assumes amounts drawn per size class and "
       "bounded histories (exhaustive to the model depth, seeded random walks beyond).")

def _lvl(what):
    return ("TLC checks the property's invariants and step contracts (spec/elys) exhaustively on a small-integer model of the subsystem (the model refines the contract), "
            "enumerates every model behaviour up to the bound as a schedule, replays schedules plus long seeded random walks on the REAL ElysApp through "
            "FinalizeBlock/Commit with signed transactions, and validates every observed step of the recorded traces against the same specification with TLC. " + what)

TEXTS = {
    "C01": {"technique": "TLA+ state invariant + TLC trace validation of real ABCI executions",
            "level": _lvl("C01 is the invariant reserve + donated = bank balance at the pool address, pool holds nothing else, DenomLiquidity = sum of reserves, evaluated after begin-block, every transaction and end-block."),
            "note": _TB},
    "C02": {"technique": "TLA+ state invariant + join/exit step contracts, TLC trace validation",
            "level": _lvl("C02 is the four-way equality pool.TotalShares = supply = sum committed = custody balance plus 'no shares outside custody', and contracts tying minted/burned shares to join/exit responses."),
            "note": _TB},
    "C06": {"technique": "TLA+ state invariant on stored vault values, TLC trace validation",
            "level": _lvl("C06 is totalValue = cash - donated + sum(borrowed + stacked - paid) on stored values at every observation point, plus bond/unbond step contracts."),
            "note": _TB},
    "C12": {"technique": "TLA+ delta-form invariant with known-finding signatures, TLC trace validation",
            "level": _lvl("C12 is checked in delta form (total moves exactly with the accounts' committed amounts) so that the two recorded known findings are matched by exact signature and any other drift is still a violation; custody coverage and lock-up preservation are state/step checks."),
            "note": _TB},
    "C15": {"technique": "TLA+ per-step supply rules over every denom, TLC trace validation",
            "level": _lvl("C15 is a generic step check on every event (including failed transactions and block processing): external denoms keep their supply, uelys is minted only by vesting release and burned only from the zero address, share tokens move only against deposits/withdrawals; plus supply = sum of balances."),
            "note": _TB},
}
