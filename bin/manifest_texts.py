"""Texts of MANIFEST.json per claimed property."""
HOOK_COMMITS = []
NOT_APPLICABLE = {}

_TB = ("Trusted base: TLC 1.8.0 + CommunityModules Json; the 60-line java.math.BigInteger override (self-tested against TLC integers at setup); "
       "the harness projection (structural copy of exported keeper getters); cosmos-sdk baseapp/bank/store. Assumes amounts drawn per size class and "
       "bounded histories (exhaustive to the model depth, seeded random walks beyond).")

def _lvl(what):
    return ("TLC checks the property's invariants and step contracts (spec/elys) exhaustively on a small-integer model of the subsystem (the model refines the contract), "
            "enumerates every model behaviour up to the bound as a schedule, replays schedules plus long seeded random walks on the REAL ElysApp through "
            "FinalizeBlock/Commit with signed transactions, and validates every observed step of the recorded traces against the same specification with TLC. " + what)

_LAT = ("TLC enumerates the class lattice of spec/mc/MC_pricing.tla exhaustively (113 832 classes: reserve magnitude 1e0..1e24 x reserve ratio x weight pair x fee x trade size x direction x pool kind x external-liquidity ratio x oracle deviation x share supply); "
        "the harness instantiates each class (quick: a seeded sample; thorough: all classes, 3 draws) with concrete values and calls the REAL pool functions with the real oracle/accounted-pool keepers; "
        "TLC evaluates the rational bound of spec/elys/Pricing.tla (cross-multiplied integer-power inequalities in arbitrary precision, exactly the property's allowance) on every call. ")

TEXTS = {
    "C03": {"technique": "TLC-enumerated class lattice + TLA+ rational bounds evaluated on real pool-function calls and on real keeper flows",
            "level": _LAT + "In addition every step of real ABCI traces is checked for 'weighted product of reserves never decreases' on constant-product pools (fee skims included), which makes round trips and split trades unprofitable by induction. This is specification-as-oracle checking over an exhaustively enumerated class lattice with sampled concretisations, not a proof over all integers.",
            "note": _TB + " Known finding C03-dec-rounding-large-reserves (18-digit Dec rounding beyond one base unit for reserves >= 1e17) is matched by an exact bounded signature."},
    "C05": {"technique": "TLC-enumerated class lattice + TLA+ rational bounds on real Pool.JoinPool/ExitPool calls, plus join/exit step contracts on ABCI traces",
            "level": _LAT + "C05 bounds: all-asset join shares <= pro-rata of every asset joined; single-asset join (S+sh)/S <= ((r+a)/r)^(w/W); oracle-pool joins by value at oracle prices; exits <= pro-rata claim (by value for single-sided oracle exits); an exit never burns all shares nor takes a whole reserve; book-keeping of Pool after exit. Real MsgJoinPool/MsgExitPool in ABCI traces are checked for 'never empties the pool' and response consistency.",
            "note": _TB},
    "C07": {"technique": "TLA+ step contracts on bond/unbond/borrow over real ABCI traces with interest accrual, TLC trace validation",
            "level": _lvl("C07 contracts: shares minted by a bond <= amount/rate + 1, payout of an unbond <= shares*rate + 1 (so deposit-then-withdraw gains at most one share's worth), the redemption value of every lender whose holding did not change never falls by more than one share's worth across ANY step, and after every step that increased loan principal the loans are within 90 % of the vault value as the code evaluates it."),
            "note": _TB},
    "C13": {"technique": "TLA+ re-implementation of the reward accumulator (claimable per pool/denom/account in Dec mantissas) as invariant + step contracts, TLC trace validation",
            "level": _lvl("C13: module balance >= sum of floor(claimable) for every bank-backed reward denom at every observation; only end-block distribution changes anybody's claimable (a new committer earns nothing retroactively); per block the total newly credited <= what moved into the module plus the pre-funded external-incentive amount of that block; a claim always succeeds and pays exactly the credited integer amount."),
            "note": _TB},
    "C14": {"technique": "deterministic TLA+ specification of the vesting sub-machine (post-state = function of pre-state and message), exhaustive TLC model + TLC-simulated behaviours replayed on the real chain, TLC trace validation of exact post-state equality",
            "level": "spec/elys/Vesting.tla defines vest / claim / cancel / vest-now as functions on the vesting list; spec/mc/MC_vesting.tla executes them over small integers and TLC checks exhaustively (about 5e5 states, depth 6-7) that cumulative release per entry is monotone, never above the total, equal to the total once the schedule has elapsed, and that released + returned + outstanding = vested. "
                     "Every model behaviour up to depth 4 (95 393 of them, seeded sample in the quick tier), TLC-simulated behaviours of length 10-14 and long weighted walks (two accounts, claim-cancel-claim corners, governance changes of schedule length incl. 0 and of the maximum) are replayed on the REAL ElysApp through FinalizeBlock/Commit; "
                     "TLC then checks on every observed step that the stored vesting list, the claimable Eden and the bank balances after the step EQUAL the specification's function of the state before it, that a claim whose messages ran always succeeds, and that nobody else's entries change.",
            "note": _TB},
    "C16": {"technique": "deterministic TLA+ specification of the price table (feed / expiry as functions, reference lookup as a relation), exhaustive TLC model over prefix- and concatenation-related names, behaviours replayed on the real chain, TLC trace validation of table equality and of every probed lookup",
            "level": "spec/elys/Oracle.tla specifies Feed, Expire and the reference lookup (exactly the asked asset; elys, then band, then any source; newest entry of that source; none when there is no such entry; denom lookups yield 0 without asset info or live price). "
                     "spec/mc/MC_oracle.tla executes it over names that are prefixes and concatenations of one another with three would-be feeders and both expiry rules; TLC checks the lookup laws and the step contract exhaustively (2.6e5 states quick, 5e6 thorough). "
                     "All 42 875 model behaviours of depth 3 (seeded sample in the quick tier), TLC-simulated behaviours of length 12-16 and long weighted walks are replayed on the REAL ElysApp; at every observation point the harness calls the real GetAssetPrice for every probed name and GetAssetPriceFromDenom for probed denoms; "
                     "TLC checks on every observed step that the stored table equals the specification's function of the table before the step (feeds write exactly the fed entries, end of block removes exactly the expired ones, nothing else changes it), that every lookup result is admitted by the reference lookup over the stored table, that only an active registered feeder's feed succeeds, and that the feeder registry changes only through the feeder's own or governance messages.",
            "note": _TB + " Known finding C16-key-collision-on-concatenated-names is matched by an exact signature evaluated in TLA+."},
    "C04": {"technique": "TLA+ block-level batch contract (parse of settled hop chains into distinct accepted requests + exact fund-movement equation), exhaustive TLC model of the end-of-block batch over ALL pick orders, behaviours replayed on the real chain, TLC trace validation",
            "level": "spec/elys/Batch.tla states C04 on three step kinds: a swap transaction only dry-runs and queues (no funds move, exactly one queue entry iff accepted); at end of block the user-visible token_swapped events must parse into hop chains that settle DISTINCT requests accepted in that block within their limits (exact input / at most the maximum, at least the minimum / exactly the stated output, intermediate hops to the sender, last hop to the recipient), every user balance change of the step must equal what those events say plus a non-negative rebalancing bonus to a recipient (so a dropped request changed nothing), and the queue must be empty at end of block and at the next begin-block. "
                     "spec/mc/MC_ledger.tla (batch alphabet) queues requests and settles them at end of block in EVERY order; TLC checks the contract and all ledger invariants exhaustively (2.5e5 states quick, 1.8e6 thorough). "
                     "Model behaviours (exhaustive to depth 3, TLC-simulated to depth 6-8) and long walks with 2-7 requests per block (same/opposite directions, two-hop routes sharing a pool, both forms, tight/impossible limits, foreign recipients, price-moving joins/exits and fee-conversion swaps in the same block) are replayed on the REAL ElysApp and every step is validated by TLC.",
            "note": _TB},
    "C20": {"technique": "TLA+ invariant (escrow backs every pending order) + step contracts (wallet+escrow conservation, owner-only update/cancel, trigger-gated execution, frame), TLC trace validation of real ABCI executions with long seeded walks",
            "level": "spec/elys/Orders.tla: every escrow account holds at least the amounts of the pending orders it backs; wallet + pending-order amounts per owner and denom are conserved by every tradeshield step except that a successful perpetual execution moves exactly the collateral into a position; cancel returns the whole escrow and removes the order; update/cancel (single and batch) alter only the sender's own orders; an execution request from anyone alters or removes an order only if the market price - probed through the real price functions on the state before the step - satisfies its trigger; orders and escrows change only through tradeshield messages. "
                     "Walks of 50-100 steps (all order types, triggers below/at/above market, owners / other users / bots, batch messages naming arbitrary ids, oracle price moves, executions made to fail through pool health, withdrawals and big positions) run on the REAL ElysApp through FinalizeBlock/Commit; TLC validates every observed step against this and all other contracts.",
            "note": _TB + " No exhaustive model of the order book yet (walks only); the trigger comparison is the specification's, the market price is the implementation's own price function probed on the pre-state."},
    "C18": {"technique": "TLA+ block-lifecycle contracts (no Halt event; ante moves only the fee; end-blocker starts from the state after the last transaction; failed transaction changes nothing) over real ABCI executions under TLC trace validation; fault-injecting seeded walks",
            "level": "The real ElysApp is driven through FinalizeBlock/Commit by walks of 120-300 steps that interleave the widest user alphabet (swaps incl. dust and multi-hop, joins/exits down to one share, bond/unbond, leveraged-LP and perpetual opens/closes/bot closes, orders, claims, external incentives) with environment faults: oracle outages of 1-25 blocks under a 3-block / 1-hour price life time, block-time gaps up to 40 days (many epochs at once), fees in uusdc/uatom/uelys/uusdt/WBTC/an unknown IBC denom from 1 base unit, tokens and locked vesting accounts at the zero address before burner epoch ends (burner epoch and Eden incentives configured). "
                     "A block whose FinalizeBlock or Commit errors or panics is recorded as a Halt event; TLC validates every observed step: no Halt, the ante handler moves exactly the fee, the end-blocker starts from exactly the state the last transaction left (failed transactions left nothing), a failed transaction's post-state equals its pre-state, plus every invariant and contract of all other properties on the degraded states.",
            "note": _TB + " No exhaustive fault model yet (seeded walks only); governance parameter extremes are not driven."},
    "C08": {"technique": "TLA+ state invariants over leveraged-LP positions + close step contract, TLC trace validation",
            "level": _lvl("C08 is the invariant pool.LeveragedLpAmount = sum of position LP amounts, position LP = shares committed at the position address, open counter = stored positions, nothing left committed at the address of a removed position; checked after every begin-block sweep, transaction and end-block of histories with opens, consolidations, partial/full closes, bot MsgClosePositions and price moves."),
            "note": _TB},
    "C09": {"technique": "TLA+ state invariants over perpetual pools and MTPs, TLC trace validation",
            "level": _lvl("C09 is the invariant that pool custody/liabilities/collateral per side and asset equal the sums over stored MTPs, the open counter equals the stored MTPs, and the amm reserve covers total custody per asset."),
            "note": _TB},
    "C10": {"technique": "TLA+ step contracts on third-party closes and opens, real health function probed per state, TLC trace validation",
            "level": _lvl("C10 is a step contract on bot MsgClosePositions (leveragelp, perpetual) and the begin-block sweep: every position altered by a third party must have been closable on the pre-state (probed real health within a 5 % band of the safety factor, or stop-loss / take-profit trigger reached - exact for perpetuals), untouched owners keep their funds, and every successful open leaves stored and probed health above the safety factor."),
            "note": _TB + " The health used for the closability judgement is the implementation's own health function evaluated on the pre-state (independent of the liquidation code path but not of the pricing code)."},
    "C11": {"technique": "TLA+ state invariant relating accounted pool, amm reserves and perpetual aggregates, TLC trace validation",
            "level": _lvl("C11 is the invariant accounted total = reserve + liabilities - custody and non-amm part = liabilities - custody for every asset of every perpetual-enabled pool (default formula, EnableTakeProfitCustodyLiabilities = false), reported at the step that breaks it."),
            "note": _TB},
    "C01": {"technique": "TLA+ state invariant + TLC trace validation of real ABCI executions",
            "level": _lvl("C01 is the invariant reserve + donated = bank balance at the pool address, pool holds nothing else, DenomLiquidity = sum of reserves, evaluated after begin-block, every transaction and end-block."),
            "note": _TB},
    "C02": {"technique": "TLA+ state invariant + join/exit step contracts, TLC trace validation",
            "level": _lvl("C02 is the four-way equality pool.TotalShares = supply = sum committed = custody balance plus 'no shares outside custody', and contracts tying minted/burned shares to join/exit responses."),
            "note": _TB},
    "C06": {"technique": "TLA+ state invariant on stored vault values, TLC trace validation",
            "level": _lvl("C06 is totalValue = cash - donated + sum(borrowed + stacked - paid) on stored values at every observation point, plus bond/unbond step contracts."),
            "note": _TB},
    "C12": {"technique": "TLA+ delta-form invariant with known-finding signatures, TLC trace validation",
            "level": _lvl("C12 is checked in delta form (total moves exactly with the accounts' committed amounts) so that the two recorded known findings are matched by exact signature and any other drift is still a violation; custody coverage and lock-up preservation are state/step checks."),
            "note": _TB},
    "C15": {"technique": "TLA+ per-step supply rules over every denom, TLC trace validation",
            "level": _lvl("C15 is a generic step check on every event (including failed transactions and block processing): external denoms keep their supply, uelys is minted only by vesting release and burned only from the zero address, share tokens move only against deposits/withdrawals; plus supply = sum of balances."),
            "note": _TB},
}
