//go:build verif

package main

import (
	"crypto/sha256"
	"encoding/json"
	"flag"
	"fmt"
	"os"
	"path/filepath"
	"sync"
)

// elysdrv replicas -schedules f.ndjson -out dir -seed S -workers N -tag P
//
// C19: every schedule is executed on three replicas that start from the identical genesis bytes:
//   A  never stopped; it also behaves like a node with a mempool and an RPC: every transaction is CheckTx'ed and
//      Simulate'd before the block that carries it (branches of the check state, never written),
//   B  a second, independent instance (its own Go map iteration orders, its own wall-clock),
//   C  re-instantiated from its database after EVERY committed block (node restart).
// Each replica runs the same deterministic driver with the same seed, so as long as the application is
// deterministic all three see the same transactions; any divergence of state shows up as a different
// application hash / transaction-result digest at some height.  One trace line is written per
// (schedule, replica, height); spec/trace/TraceRep.tla checks agreement.  -tag distinguishes OS processes
// (the orchestrator runs this command in two processes with different GOMAXPROCS and merges the traces).
func init() { extraCmds["replicas"] = cmdReplicas }

type repLine struct {
	Kind string         `json:"kind"`
	Ev   map[string]any `json:"ev"`
}

func cmdReplicas(args []string) {
	fs := flag.NewFlagSet("replicas", flag.ExitOnError)
	schedFile := fs.String("schedules", "", "ndjson file of schedules")
	out := fs.String("out", "", "output directory")
	seed := fs.Int64("seed", 1, "seed")
	workers := fs.Int("workers", 8, "parallel workers")
	tag := fs.String("tag", "p1", "process tag")
	fs.Parse(args)
	scheds := readSchedules(*schedFile)
	os.MkdirAll(*out, 0o755)
	tmp, _ := os.MkdirTemp("", "elysrep")
	defer os.RemoveAll(tmp)
	gen := MakeGenesis(tmp)
	var wg sync.WaitGroup
	var mu sync.Mutex
	stats := map[string]int{}
	for w := 0; w < *workers; w++ {
		wg.Add(1)
		go func(w int) {
			defer wg.Done()
			f, err := os.Create(filepath.Join(*out, fmt.Sprintf("rep-%s-%02d.ndjson", *tag, w)))
			if err != nil {
				panic(err)
			}
			defer f.Close()
			for i := w; i < len(scheds); i += *workers {
				s := scheds[i]
				for _, rep := range []string{"A", "B", "C"} {
					c := runReplica(gen, tmp, scheduleSeed(*seed, s.ID), s, rep == "C", rep == "A")
					mu.Lock()
					stats["replica_runs"]++
					stats["blocks"] += int(c.Height)
					if rep == "C" {
						stats["restarts"] += int(c.Height)
					}
					if c.Halted != "" {
						stats["halted"]++
					}
					mu.Unlock()
					for h := 1; h < len(c.Hashes); h++ {
						if dir := os.Getenv("VERIF_DUMP_RESULTS"); dir != "" { // debugging aid: the full result strings
							os.WriteFile(filepath.Join(dir, fmt.Sprintf("%s-%s-%s-%d.txt", s.ID, *tag, rep, h)), []byte(c.Results[h]), 0o644)
						}
						rd := sha256.Sum256([]byte(c.Results[h]))
						ln := repLine{Kind: "Rep", Ev: map[string]any{"schedule": s.ID, "replica": *tag + "/" + rep, "restarted": rep == "C", "h": h,
							"hash": fmt.Sprintf("%x", c.Hashes[h]), "results": fmt.Sprintf("%x", rd[:8])}}
						bz, _ := json.Marshal(ln)
						f.Write(bz)
						f.Write([]byte("\n"))
					}
					// the final height each replica reached (a replica that halted earlier than the others disagrees)
					ln := repLine{Kind: "RepEnd", Ev: map[string]any{"schedule": s.ID, "replica": *tag + "/" + rep, "restarted": rep == "C", "h": len(c.Hashes) - 1,
						"hash": "", "results": c.Halted}}
					bz, _ := json.Marshal(ln)
					f.Write(bz)
					f.Write([]byte("\n"))
				}
			}
		}(w)
	}
	wg.Wait()
	bz, _ := json.Marshal(stats)
	fmt.Println("STATS", string(bz))
}

// runReplica executes one schedule on a fresh chain without projecting state; restart = re-instantiate after every block.
func runReplica(gen *Genesis, tmp string, seed int64, s Schedule, restart, mempool bool) (c *Chain) {
	defer func() {
		if r := recover(); r != nil {
			fmt.Fprintf(os.Stderr, "DRIVER-PANIC replica schedule=%s: %v\n%s\n", s.ID, r, shortStackAll())
		}
	}()
	c = NewChain(gen, tmp, seed, nil)
	c.NoObs = true
	c.RestartEveryBlock = restart
	c.Mempool = mempool
	c.SetupScene(sceneFor(s.Scene))
	d := NewDriver(c)
	prepScene(d, s.Scene)
	for _, st := range s.Steps {
		if c.Halted != "" {
			break
		}
		d.Apply(st)
	}
	if len(c.pending) > 0 && c.Halted == "" {
		c.NextBlock(d.Dt)
	}
	return c
}
