//go:build verif

package main

import (
	"encoding/json"
	"flag"
	"fmt"
	"math/rand"
	"os"
)

// Random-walk schedule generators (the exhaustive, bounded schedules come from the
// TLC models under spec/mc; these walks go far beyond that bound).

func pick[T any](r *rand.Rand, xs ...T) T { return xs[r.Intn(len(xs))] }

func genLedgerWalk(r *rand.Rand, n int) []Step {
	var st []Step
	if genIndex%5 == 1 {
		// scripted corner: a join whose MaxAmountsIn lists one denom twice (oracle pool and constant-product pool)
		st = append(st, Step{"a": "join", "u": "u2", "p": float64(3), "sz": pick(r, "s2", "s3"), "mode": "dup", "d": pick(r, "uusdc", "uusdt")}, Step{"a": "block", "dt": float64(5)},
			Step{"a": "join", "u": "u3", "p": float64(1), "sz": "s2", "mode": "dup", "d": "uusdc"}, Step{"a": "block", "dt": float64(3700)},
			Step{"a": "exit", "u": "u2", "p": float64(3), "frac": "all"}, Step{"a": "block", "dt": float64(5)})
	}
	if genIndex%5 == 4 {
		// scripted corner: single-sided joins of a constant-product pool one after the other in ONE block (the second is priced
		// after the first has changed the share price), then a pro-rata exit
		pid := float64(1 + r.Intn(2))
		st = append(st, Step{"a": "join", "u": "u2", "p": pid, "sz": pick(r, "s3", "big"), "mode": "single", "d": "uusdc"},
			Step{"a": "join", "u": "u3", "p": pid, "sz": pick(r, "s2", "s3"), "mode": "single", "d": "uusdc"},
			Step{"a": "join", "u": "u3", "p": pid, "sz": "s1", "mode": "single", "d": ""}, Step{"a": "block", "dt": float64(5)},
			Step{"a": "exit", "u": "u3", "p": pid, "frac": "all"}, Step{"a": "block", "dt": float64(5)})
	}
	if genIndex%5 == 2 {
		// scripted corner: two single-sided joins into the oracle pool WITHOUT accounted pool in ONE block (the second is priced
		// after the first has changed the pool), then exits after the lock-up
		st = append(st, Step{"a": "join", "u": "u2", "p": float64(3), "sz": pick(r, "s3", "big"), "mode": "single", "d": "uusdt"},
			Step{"a": "join", "u": "u3", "p": float64(3), "sz": pick(r, "s3", "s2"), "mode": "single", "d": "uusdc"},
			Step{"a": "join", "u": "u2", "p": float64(3), "sz": "s2", "mode": "single", "d": "uusdc"}, Step{"a": "block", "dt": float64(3700)},
			Step{"a": "exit", "u": "u3", "p": float64(3), "frac": "all"}, Step{"a": "exit", "u": "u2", "p": float64(3), "frac": "half", "d": "uusdc"}, Step{"a": "block", "dt": float64(5)})
	}
	users := []string{"u1", "u2", "u3"}
	sizes := []string{"dust", "s1", "s2", "s2", "s3"}
	for i := 0; i < n; i++ {
		u := pick(r, users...)
		p := float64(1 + r.Intn(3))
		switch r.Intn(12) {
		case 0, 1, 2:
			st = append(st, Step{"a": "swapIn", "u": u, "p": p, "din": pick(r, "uusdc", ""), "sz": pick(r, sizes...), "limit": pick(r, "loose", "loose", "tight", "impossible"), "rcpt": pick(r, "", "", "u3")})
		case 3, 4:
			st = append(st, Step{"a": "swapOut", "u": u, "p": p, "din": pick(r, "uusdc", ""), "sz": pick(r, "dust", "s1", "s2", "s3"), "limit": pick(r, "loose", "loose", "tight", "impossible"), "rcpt": pick(r, "", "", "u2")})
		case 5:
			if r.Intn(3) == 0 { // a route through the same pool twice
				pid := float64(1 + r.Intn(2))
				st = append(st, Step{"a": "swapIn", "u": u, "route": []any{pid, pid}, "din": "uusdc", "sz": pick(r, "s1", "s2"), "limit": "loose"})
			} else {
				st = append(st, Step{"a": "swapIn", "u": u, "route": []any{float64(1), float64(2)}, "din": "uatom", "sz": pick(r, sizes...), "limit": "loose"})
			}
		case 6:
			st = append(st, Step{"a": "join", "u": u, "p": p, "sz": pick(r, "s1", "s2", "s3"), "mode": pick(r, "all", "all", "single"), "d": pick(r, "uusdc", "")})
		case 7:
			st = append(st, Step{"a": "exit", "u": u, "p": p, "frac": pick(r, "one", "third", "half", "all", "over")})
		case 8:
			st = append(st, Step{"a": "bond", "u": u, "sz": pick(r, "1000000", "250000000", "77")})
		case 9:
			st = append(st, Step{"a": "unbond", "u": u, "frac": pick(r, "one", "half", "all")})
		case 10:
			st = append(st, Step{"a": "claim", "u": u, "pools": []any{float64(1), float64(2), float64(32767)}})
		case 11:
			st = append(st, Step{"a": "fee", "d": pick(r, "uusdc", "uusdc", "uatom", "uelys")})
			continue
		}
		if r.Intn(3) > 0 {
			st = append(st, Step{"a": "block", "dt": float64(pick(r, 5, 5, 60, 3600))})
		}
	}
	return st
}

func genPositionsWalk(r *rand.Rand, n int) []Step {
	var st []Step
	users := []string{"u1", "u2", "u3"}
	nextLev, nextPerp := 1, 1
	for i := 0; i < n; i++ {
		u := pick(r, users...)
		switch r.Intn(18) {
		case 17: // governance moves a risk parameter while positions are open (a raised safety factor makes many positions
			// liquidatable at once; a lowered one re-admits them), then a bot looks at everybody
			if r.Intn(2) == 0 {
				st = append(st, Step{"a": "govParam", "module": "leveragelp", "field": "SafetyFactor", "value": pick(r, "1.1", "1.3", "1.6", "2")})
			} else {
				st = append(st, Step{"a": "govParam", "module": "perpetual", "field": "SafetyFactor", "value": pick(r, "1.025", "1.05", "1.15", "1.3")})
			}
			var all []any
			for _, w := range users {
				all = append(all, []any{w, float64(1 + r.Intn(nextLev+nextPerp))})
			}
			st = append(st, Step{"a": "block", "dt": float64(5)}, closeLists(r, pick(r, "levClosePositions", "perpClosePositions"), all, "liq", "sl"))
		case 16: // stress: the market moves against the usual leverage until positions sit around the safety factor, nobody liquidates,
			// and the OWNERS act on them (tiny top-ups with leverage 0, consolidating re-opens, partial closes); then the market recovers
			down := r.Intn(2) == 0
			mul, back := pick(r, "0.815", "0.83", "0.84", "0.85"), "1.2"
			if !down {
				mul, back = pick(r, "1.16", "1.17", "1.18", "1.2"), "0.85"
			}
			st = append(st, Step{"a": "feed", "asset": "ATOM", "mul": mul}, Step{"a": "block", "dt": float64(5)})
			for k := 0; k < 2+r.Intn(3); k++ {
				w := pick(r, users...)
				switch r.Intn(4) {
				case 0, 1:
					st = append(st, Step{"a": "perpOpen", "u": w, "p": float64(1), "side": map[bool]string{true: "long", false: "short"}[down], "coll": "uusdc",
						"sz": pick(r, "one", "1000", "20000", "s1"), "lev": pick(r, "0", "0", "2")})
					nextPerp++
				case 2:
					st = append(st, Step{"a": "perpClose", "u": w, "id": float64(1 + r.Intn(nextPerp)), "frac": pick(r, "one", "third", "half")})
				case 3:
					st = append(st, Step{"a": "levOpen", "u": w, "p": float64(1), "sz": pick(r, "one", "1000", "s1"), "lev": pick(r, "1.5", "2", "9")})
					nextLev++
				}
			}
			st = append(st, Step{"a": "block", "dt": float64(5)}, Step{"a": "feed", "asset": "ATOM", "mul": back})
		case 0, 1:
			st = append(st, Step{"a": "levOpen", "u": u, "p": float64(1), "sz": pick(r, "s1", "s2", "1000000"), "lev": pick(r, "1.5", "2", "5", "9")})
			nextLev++
		case 2:
			st = append(st, Step{"a": "levClose", "u": u, "id": float64(1 + r.Intn(nextLev)), "frac": pick(r, "one", "third", "half", "all", "allbut1", "allbut1")})
		case 3, 4:
			st = append(st, Step{"a": "perpOpen", "u": u, "p": float64(1), "side": pick(r, "long", "long", "short"), "coll": pick(r, "uusdc", "trading"), "sz": pick(r, "s1", "s2", "1000000"), "lev": pick(r, "2", "3", "5", "0")})
			nextPerp++
		case 5:
			st = append(st, Step{"a": "perpClose", "u": u, "id": float64(1 + r.Intn(nextPerp)), "frac": pick(r, "one", "third", "half", "all", "allbut1")})
		case 6:
			if r.Intn(5) == 0 { // the base currency drifts around its peg
				st = append(st, Step{"a": "feed", "asset": "USDC", "px": pick(r, "1.02", "0.98", "1", "1.01", "0.99")})
			} else {
				st = append(st, Step{"a": "feed", "asset": "ATOM", "mul": pick(r, "0.8", "0.9", "0.97", "1.03", "1.1", "1.25")})
			}
		case 7:
			reqs := []any{}
			for k := 0; k < 1+r.Intn(3); k++ {
				reqs = append(reqs, []any{pick(r, users...), float64(1 + r.Intn(nextPerp))})
			}
			st = append(st, closeLists(r, "perpClosePositions", reqs, "liq", "sl", "tp"))
		case 8:
			reqs := []any{}
			for k := 0; k < 1+r.Intn(3); k++ {
				reqs = append(reqs, []any{pick(r, users...), float64(1 + r.Intn(nextLev))})
			}
			st = append(st, closeLists(r, "levClosePositions", reqs, "liq", "sl"))
		case 9:
			st = append(st, Step{"a": "swapIn", "u": u, "p": float64(1 + r.Intn(2)), "din": pick(r, "uusdc", ""), "sz": pick(r, "s1", "s2", "s3"), "limit": "loose"})
		case 10:
			st = append(st, Step{"a": "join", "u": u, "p": float64(1), "sz": pick(r, "s1", "s2"), "mode": pick(r, "all", "single"), "d": pick(r, "uusdc", "uatom")})
		case 11:
			st = append(st, Step{"a": "exit", "u": u, "p": float64(1), "frac": pick(r, "third", "half", "all"), "d": pick(r, "", "", "uusdc")})
		case 12:
			st = append(st, Step{"a": "bond", "u": u, "sz": pick(r, "1000000", "250000000000")})
		case 13:
			st = append(st, Step{"a": "unbond", "u": pick(r, "u4", u), "frac": pick(r, "one", "third")})
		case 14:
			st = append(st, Step{"a": "claim", "u": u, "pools": []any{float64(1), float64(2), float64(32767)}})
		case 15:
			st = append(st, Step{"a": "perpStopLoss", "u": u, "id": float64(1 + r.Intn(nextPerp)), "px": pick(r, "4.5", "5.5")})
		}
		if r.Intn(3) > 0 {
			st = append(st, Step{"a": "block", "dt": float64(pick(r, 5, 5, 60, 3600, 86400))})
		}
	}
	return st
}

// Scripted scenarios with seeded parameters (scene "positions": oracle pool 1 uatom/uusdc with leverage and perpetual
// enabled, balancer pool 2 uelys/uusdc, vault funded by u4).  Each targets a specific multi-step corner of a property.
func genScenario(r *rand.Rand, i int) []Step {
	blk := func(dt int) Step { return Step{"a": "block", "dt": float64(dt)} }
	u, v := pick(r, "u2", "u3"), "u1"
	switch i % 25 {
	case 24: // a SECOND oracle pool of the same pair is created and enabled for leverage / perpetual trading; a trader who holds a
		// position in the first pool opens the same kind of position in the second one, then both are looked at and closed
		side := pick(r, "long", "short")
		return []Step{{"a": "createPool", "kind": "oracle", "fee": "0.001", "d1": "uatom", "d2": "uusdc", "a1": "100000000000", "a2": "500000000000"}, blk(5),
			{"a": "enableLev", "p": float64(3)}, blk(5),
			{"a": "perpOpen", "u": u, "p": float64(1), "side": side, "coll": "uusdc", "sz": pick(r, "s1", "1000000"), "lev": "2"}, blk(5),
			{"a": "perpOpen", "u": u, "p": float64(3), "side": side, "coll": "uusdc", "sz": pick(r, "s1", "1000000"), "lev": pick(r, "2", "3")}, blk(5),
			{"a": "perpOpen", "u": v, "p": float64(3), "side": "long", "coll": "uusdc", "sz": "s1", "lev": "2"}, blk(60),
			{"a": "perpClosePositions", "u": "bot", "exact": true, "liq": []any{[]any{u, float64(1)}, []any{u, float64(2)}, []any{v, float64(3)}}, "sl": []any{}, "tp": []any{}}, blk(5),
			{"a": "perpClose", "u": u, "id": float64(1), "frac": "all"}, {"a": "perpClose", "u": u, "id": float64(2), "frac": "all"}, blk(5)}
	case 23: // governance raises a safety factor: a highly leveraged position becomes liquidatable while a modest one stays healthy; the
		// bot names the liquidatable position TWICE in one message (in both lists, or twice in one list), then the other one too
		if r.Intn(2) == 0 {
			// (leveragelp's ValidateBasic refuses an id named twice in one message, and the begin-block sweep would liquidate the
			// position first: here the price drop and the bot's message share a block, each position named once)
			dup := pick(r, Step{"a": "levClosePositions", "u": "bot", "exact": true, "liq": []any{[]any{u, float64(1)}}, "sl": []any{[]any{v, float64(2)}}},
				Step{"a": "levClosePositions", "u": "bot", "exact": true, "liq": []any{[]any{v, float64(2)}, []any{u, float64(1)}}, "sl": []any{}})
			return []Step{{"a": "levOpen", "u": u, "p": float64(1), "sz": pick(r, "s1", "1000000"), "lev": "9"}, {"a": "levOpen", "u": v, "p": float64(1), "sz": "s1", "lev": "2"}, blk(5),
				{"a": "feed", "asset": "ATOM", "mul": pick(r, "0.6", "0.7")}, dup, blk(5),
				{"a": "levOpen", "u": "u3", "p": float64(1), "sz": "s1", "lev": "3"}, blk(5), {"a": "levClose", "u": v, "id": float64(2), "frac": "all"}, blk(5)}
		}
		dup := pick(r, Step{"a": "perpClosePositions", "u": "bot", "exact": true, "liq": []any{[]any{u, float64(1)}}, "sl": []any{[]any{u, float64(1)}}, "tp": []any{[]any{u, float64(1)}}},
			Step{"a": "perpClosePositions", "u": "bot", "exact": true, "liq": []any{[]any{u, float64(1)}, []any{v, float64(2)}, []any{u, float64(1)}}, "sl": []any{}, "tp": []any{}})
		return []Step{{"a": "perpOpen", "u": u, "p": float64(1), "side": pick(r, "long", "short"), "coll": "uusdc", "sz": pick(r, "s1", "1000000"), "lev": "5"},
			{"a": "perpOpen", "u": v, "p": float64(1), "side": "long", "coll": "uusdc", "sz": "s1", "lev": "2"}, blk(5),
			{"a": "govParam", "module": "perpetual", "field": "SafetyFactor", "value": pick(r, "1.3", "1.4")}, dup, blk(5),
			{"a": "perpOpen", "u": "u3", "p": float64(1), "side": "long", "coll": "uusdc", "sz": "s1", "lev": "2"}, blk(5), {"a": "perpClose", "u": v, "id": float64(2), "frac": "all"}, blk(5)}
	case 22: // a leveraged position is left alone for about ten years in ONE block gap: when the sweep finally liquidates it, what it
		// recovers is less than the interest accrued (the deepest kind of shortfall: Repay books everything as interest, principal
		// and part of the interest stay owed); a second borrower opens afterwards and everybody is refreshed
		return []Step{{"a": "levOpen", "u": u, "p": float64(1), "sz": pick(r, "s1", "1000000"), "lev": pick(r, "5", "9")}, blk(5),
			{"a": "levOpen", "u": v, "p": float64(1), "sz": "s1", "lev": "2"}, blk(5), blk(pick(r, 299592000, 340000000, 378432000)),
			{"a": "feedAll"}, blk(5), {"a": "feedAll"}, blk(5), {"a": "levClosePositions", "u": "bot", "exact": true, "liq": []any{[]any{u, float64(1)}, []any{v, float64(2)}}, "sl": []any{}}, blk(5),
			{"a": "levOpen", "u": "u3", "p": float64(1), "sz": "s1", "lev": "3"}, {"a": "feedAll"}, blk(5), {"a": "unbond", "u": "u4", "frac": "third"}, {"a": "feedAll"}, blk(5)}
	case 21: // the market moves against a 5x position until its health is at or just below the safety factor; nobody liquidates it and
		// its owner tops it up (a consolidating open with leverage 0) with far too little to restore it, then with enough
		side := pick(r, "long", "short")
		mul := pick(r, "0.815", "0.83", "0.84")
		if side == "short" {
			mul = pick(r, "1.16", "1.17", "1.18")
		}
		return []Step{{"a": "perpOpen", "u": u, "p": float64(1), "side": side, "coll": "uusdc", "sz": pick(r, "s1", "1000000"), "lev": "5"}, blk(5),
			{"a": "feed", "asset": "ATOM", "mul": mul}, blk(5),
			{"a": "perpOpen", "u": u, "p": float64(1), "side": side, "coll": "uusdc", "sz": pick(r, "1000", "one", "20000"), "lev": "0"}, blk(5),
			{"a": "perpOpen", "u": u, "p": float64(1), "side": side, "coll": "uusdc", "sz": "s1", "lev": pick(r, "0", "2")}, blk(5),
			{"a": "perpClosePositions", "u": "bot", "exact": true, "liq": []any{[]any{u, float64(1)}}, "sl": []any{}, "tp": []any{}}, blk(5)}
	case 20: // a two-sided market; a long with trading-asset collateral and (almost) no leverage owes funding but no interest; a bot
		// names it in the liquidation list while it is healthy (the attempt settles interest and funding and leaves it open)
		return []Step{{"a": "perpOpen", "u": v, "p": float64(1), "side": "short", "coll": "uusdc", "sz": "s1", "lev": "2"},
			{"a": "perpOpen", "u": u, "p": float64(1), "side": "long", "coll": "trading", "sz": pick(r, "s2", "s3"), "lev": "1.0001"},
			{"a": "perpOpen", "u": "u3", "p": float64(1), "side": "long", "coll": "uusdc", "sz": "s1", "lev": "3"}, blk(5), blk(pick(r, 5, 30)),
			{"a": "perpClosePositions", "u": "bot", "exact": true, "liq": []any{[]any{u, float64(2)}}, "sl": []any{}, "tp": []any{}}, blk(5),
			{"a": "perpClosePositions", "u": "bot", "exact": true, "liq": []any{[]any{u, float64(2)}, []any{"u3", float64(3)}}, "sl": []any{}, "tp": []any{}}, blk(5)}
	case 19: // a long accrues borrow interest, its owner tops it up (the consolidation books the interest as UNPAID without settling it),
		// then the market reaches the stop-loss (or take-profit) and a bot closes it through the stop-loss / take-profit list
		return []Step{{"a": "perpOpen", "u": u, "p": float64(1), "side": "long", "coll": "uusdc", "sz": "s2", "lev": "3", "sl": "0.9", "tp": "1.2"},
			{"a": "perpOpen", "u": v, "p": float64(1), "side": "long", "coll": "uusdc", "sz": "s1", "lev": "2"}, blk(5), blk(86400 * pick(r, 1, 3)),
			{"a": "perpOpen", "u": u, "p": float64(1), "side": "long", "coll": "uusdc", "sz": "1000000", "lev": pick(r, "0", "2"), "sl": "0.9", "tp": "1.2"}, blk(5),
			{"a": "feed", "asset": "ATOM", "mul": pick(r, "0.88", "1.25")}, blk(5),
			{"a": "perpClosePositions", "u": "bot", "exact": true, "liq": []any{}, "sl": []any{[]any{u, float64(1)}}, "tp": []any{[]any{u, float64(1)}}}, blk(5), blk(5)}
	case 18: // the base currency is quoted off its peg while a bot names positions whose stop-loss / take-profit the trading asset's
		// oracle price has NOT reached (a long's stop-loss 1-2 % below the market, a short's take-profit 1-2 % below the market)
		return []Step{{"a": "perpOpen", "u": u, "p": float64(1), "side": "long", "coll": "uusdc", "sz": "s1", "lev": "2", "sl": pick(r, "0.99", "0.985")},
			{"a": "perpOpen", "u": v, "p": float64(1), "side": "short", "coll": "uusdc", "sz": "s1", "lev": "2", "tp": pick(r, "0.99", "0.985")}, blk(5),
			{"a": "feed", "asset": "USDC", "px": pick(r, "1.02", "1.03")}, blk(5),
			{"a": "perpClosePositions", "u": "bot", "exact": true, "liq": []any{}, "sl": []any{[]any{u, float64(1)}}, "tp": []any{[]any{v, float64(2)}}}, blk(5),
			{"a": "feed", "asset": "USDC", "px": pick(r, "0.97", "0.98")}, blk(5),
			{"a": "perpClosePositions", "u": "bot", "exact": true, "liq": []any{}, "sl": []any{[]any{v, float64(2)}}, "tp": []any{[]any{u, float64(1)}}}, blk(5),
			{"a": "feed", "asset": "USDC", "px": "1"}, blk(5)}
	case 17: // three borrowers (the sweep refreshes two per block), weeks pass, then every borrower deposits into the vault in one block
		// (one of them while its own loan still carries interest nobody has booked yet) and withdraws at once
		return []Step{{"a": "levOpen", "u": "u2", "p": float64(1), "sz": "s2", "lev": "5"}, {"a": "levOpen", "u": "u1", "p": float64(1), "sz": "s2", "lev": "3"},
			{"a": "levOpen", "u": "u3", "p": float64(1), "sz": "s2", "lev": "4"}, blk(5), blk(86400 * pick(r, 20, 45)),
			{"a": "bond", "u": "u1", "sz": "50000000000"}, {"a": "bond", "u": "u2", "sz": "50000000000"}, {"a": "bond", "u": "u3", "sz": "50000000000"},
			{"a": "unbond", "u": "u1", "frac": "all"}, {"a": "unbond", "u": "u2", "frac": "all"}, {"a": "unbond", "u": "u3", "frac": "all"}, blk(5)}
	case 16: // a highly leveraged position turns unhealthy inside the one-hour lock of its shares and the OWNER asks to close it in the block
		// of the price move, before any liquidator acts (an owner's close is no liquidation: the lock still binds)
		return []Step{{"a": "levOpen", "u": u, "p": float64(1), "sz": pick(r, "s1", "s2"), "lev": "9"}, blk(5), blk(pick(r, 5, 600)),
			{"a": "feed", "asset": "ATOM", "mul": pick(r, "0.85", "0.8")}, {"a": "levClose", "u": u, "id": float64(1), "frac": pick(r, "all", "half")}, blk(5), blk(5)}
	case 15: // a leveraged position worth more than the pool's own USDC reserve whose stop-loss is reached at once: after the lock the
		// sweep / a bot tries to close it, the single-sided exit would leave the pool short of USDC and the amm hook refuses it
		return []Step{{"a": "levOpen", "u": u, "p": float64(1), "sz": pick(r, "250000000000", "300000000000"), "lev": pick(r, "5", "4.5"), "sl": "1000000000"},
			{"a": "levOpen", "u": v, "p": float64(1), "sz": "s1", "lev": "2"}, blk(5), blk(pick(r, 3700, 3590)),
			{"a": "levClosePositions", "u": "bot", "exact": true, "liq": []any{}, "sl": []any{[]any{u, float64(1)}, []any{v, float64(2)}}}, blk(5), blk(5),
			{"a": "levClose", "u": v, "id": float64(2), "frac": "half"}, {"a": "levClose", "u": u, "id": float64(1), "frac": "third"}, blk(5)}
	case 14: // governance updates the vault's parameters while loans carry pending interest
		return []Step{{"a": "levOpen", "u": "u2", "p": float64(1), "sz": "s2", "lev": "5"}, {"a": "levOpen", "u": "u1", "p": float64(1), "sz": "s1", "lev": "3"},
			{"a": "levOpen", "u": "u3", "p": float64(1), "sz": "s2", "lev": "2"}, blk(5), blk(86400 * 20), // (the sweep refreshes two of the three per block)
			{"a": "govParam", "module": "stablestake", "field": "EpochLength", "value": "one"}, blk(5),
			{"a": "bond", "u": "u3", "sz": "1000000"}, {"a": "levClose", "u": "u2", "id": float64(1), "frac": "half"}, blk(5),
			{"a": "govParam", "module": "leveragelp", "field": "EpochLength", "value": "one"}, {"a": "govParam", "module": "perpetual", "field": "EpochLength", "value": "one"}, blk(5)}
	case 12: // the sweep liquidates a big position and then looks at a healthy one of the same pool whose stop-loss sits a few per cent
		// below the LP price (both in one page of the sweep, an hour after opening)
		return []Step{{"a": "levOpen", "u": "u2", "p": float64(1), "sz": pick(r, "25000000000", "30000000000"), "lev": "9"},
			{"a": "levOpen", "u": "u3", "p": float64(1), "sz": "s1", "lev": "2", "slMul": pick(r, "0.8", "0.79", "0.81")}, blk(5), blk(3700),
			{"a": "feed", "asset": "ATOM", "mul": "0.75"}, blk(5), blk(5), blk(5),
			{"a": "levClose", "u": "u3", "id": float64(2), "frac": "half"}, blk(5)}
	case 13: // two external incentives in different denoms on one pool with overlapping ranges, the first outliving the second;
		// an LP joins during the overlap; afterwards everybody claims
		return []Step{{"a": "incentive", "u": "u2", "p": float64(2), "d": "uatom", "perBlock": "1000000", "from": float64(0), "len": float64(14)},
			{"a": "incentive", "u": "u3", "p": float64(2), "d": "uusdc", "perBlock": "500000", "from": float64(pick(r, 0, 0, 1)), "len": float64(5)}, blk(5), blk(5), blk(5),
			{"a": "join", "u": "u3", "p": float64(2), "sz": "s3", "mode": "all"}, blk(5), blk(5), blk(5), blk(5),
			{"a": "exit", "u": "u3", "p": float64(2), "frac": "half"}, {"a": "block", "dt": float64(5), "n": float64(8)},
			{"a": "claim", "u": "u3", "pools": []any{float64(2)}}, {"a": "claim", "u": "u1", "pools": []any{float64(2)}}, blk(5)}
	case 11: // longs that together hold more than half of the pool's trading asset: the health estimate of the big one fails AFTER
		// its interest was settled (the attempt is rolled back), then a healthy position of the SAME pool in the SAME bot message
		return []Step{{"a": "perpOpen", "u": "u2", "p": float64(1), "side": "long", "coll": "uusdc", "sz": pick(r, "450000000000", "440000000000"), "lev": "2"},
			{"a": "perpOpen", "u": "u1", "p": float64(1), "side": "long", "coll": "uusdc", "sz": pick(r, "80000000000", "100000000000"), "lev": "2"},
			{"a": "perpOpen", "u": "u3", "p": float64(1), "side": pick(r, "short", "long"), "coll": "uusdc", "sz": "1000000", "lev": "2"}, blk(5), blk(pick(r, 5, 3600)),
			{"a": "perpClosePositions", "u": "bot", "exact": true, "liq": []any{[]any{"u2", float64(1)}, []any{"u3", float64(3)}}, "sl": []any{}, "tp": []any{}}, blk(5),
			{"a": "perpClosePositions", "u": "bot", "exact": true, "liq": []any{[]any{"u2", float64(1)}}, "sl": []any{[]any{"u3", float64(3)}}, "tp": []any{[]any{"u3", float64(3)}}}, blk(5),
			{"a": "swapIn", "u": "u1", "p": float64(1), "din": "uusdc", "sz": "s1", "limit": "loose"}, blk(5)}
	case 8: // a route that visits the same pool twice (round trip inside one request), then ordinary traffic on that pool
		return []Step{{"a": "swapIn", "u": u, "route": []any{float64(1), float64(1)}, "din": pick(r, "uatom", "uusdc"), "sz": pick(r, "s1", "s2"), "limit": "loose"}, blk(5),
			{"a": "swapIn", "u": "u3", "route": []any{float64(2), float64(2)}, "din": "uelys", "sz": pick(r, "s1", "s2"), "limit": "loose", "rcpt": "u2"}, blk(5),
			{"a": "swapOut", "u": u, "route": []any{float64(1), float64(1)}, "din": "uusdc", "sz": "s1", "limit": "loose"}, blk(5),
			{"a": "join", "u": "u3", "p": float64(1), "sz": "s1", "mode": "all"}, blk(5)}
	case 9: // two leveraged positions of one pool made unhealthy and closed by ONE bot message in the block of the price drop
		return []Step{{"a": "levOpen", "u": "u2", "p": float64(1), "sz": "s1", "lev": "9"}, {"a": "levOpen", "u": "u3", "p": float64(1), "sz": "s1", "lev": "9"},
			{"a": "levOpen", "u": "u1", "p": float64(1), "sz": "s1", "lev": "2"}, blk(5),
			{"a": "feed", "asset": "ATOM", "mul": pick(r, "0.75", "0.7")},
			// (the healthy position first, in the middle or last: what a later entry of the message does must not depend on it)
			{"a": "levClosePositions", "u": "bot", "exact": true, "liq": pick(r,
				[]any{[]any{"u2", float64(1)}, []any{"u3", float64(2)}, []any{"u1", float64(3)}},
				[]any{[]any{"u1", float64(3)}, []any{"u2", float64(1)}, []any{"u3", float64(2)}},
				[]any{[]any{"u2", float64(1)}, []any{"u1", float64(3)}, []any{"u3", float64(2)}}), "sl": []any{}}, blk(5),
			{"a": "levClose", "u": "u1", "id": float64(3), "frac": "half"}, blk(5)}
	case 10: // a stop-loss price that is reached at once: close attempts (bot and sweep) while the opening shares are still locked
		return []Step{{"a": "levOpen", "u": u, "p": float64(1), "sz": "s1", "lev": "3", "sl": "1000000000"}, blk(5),
			{"a": "levClosePositions", "u": "bot", "exact": true, "liq": []any{}, "sl": []any{[]any{u, float64(1)}}}, blk(5), blk(600),
			{"a": "levClosePositions", "u": "bot", "exact": true, "liq": []any{}, "sl": []any{[]any{u, float64(1)}}}, blk(5),
			{"a": "join", "u": "u3", "p": float64(1), "sz": "s1", "mode": "all"}, blk(3600),
			{"a": "levClosePositions", "u": "bot", "exact": true, "liq": []any{}, "sl": []any{[]any{u, float64(1)}}}, blk(5)}
	case 0: // unbalance the oracle pool with a big one-way swap, then rebalance it (weight-recovery bonus from the treasury)
		return []Step{{"a": "swapIn", "u": u, "p": float64(1), "din": "uusdc", "sz": pick(r, "x2", "big", "x2"), "limit": "loose"}, blk(5),
			{"a": "swapIn", "u": u, "p": float64(1), "din": "uatom", "sz": pick(r, "s3", "s2"), "limit": "loose"}, blk(5),
			{"a": "swapOut", "u": "u3", "p": float64(1), "din": "uatom", "sz": pick(r, "s2", "s3"), "limit": "loose"}, blk(5),
			{"a": "join", "u": u, "p": float64(1), "sz": "s2", "mode": "single", "d": "uatom"}, blk(5),
			{"a": "exit", "u": v, "p": float64(1), "frac": "third", "d": pick(r, "uusdc", "uatom")}, blk(5)}
	case 1: // large low-leverage long, then the main LP tries to withdraw most of the pool / a trader buys the custody asset
		return []Step{{"a": "perpOpen", "u": u, "p": float64(1), "side": "long", "coll": "uusdc", "sz": "s3", "lev": "1.5"}, blk(3700),
			{"a": "exit", "u": v, "p": float64(1), "frac": pick(r, "73%", "73%", "65%"), "d": pick(r, "", "", "", "uatom")}, blk(5),
			{"a": "swapOut", "u": "u3", "p": float64(1), "din": "uusdc", "sz": pick(r, "s3", "big"), "limit": "loose"}, blk(5),
			{"a": "exit", "u": v, "p": float64(1), "frac": "half"}, blk(5),
			{"a": "perpClose", "u": u, "id": float64(1), "frac": "all"}, blk(5)}
	case 2: // several locked commits in one block, then an early partial exit, then one after expiry
		return []Step{{"a": "join", "u": u, "p": float64(1), "sz": "s2", "mode": pick(r, "all", "single"), "d": "uusdc"},
			{"a": "join", "u": u, "p": float64(1), "sz": "s1", "mode": pick(r, "all", "single"), "d": "uatom"},
			{"a": "join", "u": u, "p": float64(1), "sz": "s2", "mode": "all"}, blk(5),
			{"a": "exit", "u": u, "p": float64(1), "frac": pick(r, "tiny", "third", "half")}, blk(pick(r, 60, 600, 3000)),
			{"a": "exit", "u": u, "p": float64(1), "frac": pick(r, "half", "all")}, blk(3600),
			{"a": "exit", "u": u, "p": float64(1), "frac": pick(r, "half", "all")}, blk(5)}
	case 3: // a leveraged long made unhealthy by a price drop, then topped up by its owner (consolidating open)
		return []Step{{"a": "perpOpen", "u": u, "p": float64(1), "side": "long", "coll": "uusdc", "sz": "s1", "lev": "5"}, blk(5),
			{"a": "feed", "asset": "ATOM", "mul": pick(r, "0.81", "0.815", "0.82")}, blk(5),
			{"a": "perpOpen", "u": u, "p": float64(1), "side": "long", "coll": "uusdc", "sz": pick(r, "1000", "50000"), "lev": pick(r, "0", "2")}, blk(5),
			{"a": "perpClosePositions", "u": "bot", "liq": []any{[]any{u, float64(1)}}}, blk(5)}
	case 4: // vault rate above one: interest is stacked late in a block, then a deposit / withdrawal in the same block
		return []Step{{"a": "levOpen", "u": u, "p": float64(1), "sz": "s2", "lev": "5"}, blk(5), blk(86400 * 200),
			{"a": "levClose", "u": u, "id": float64(1), "frac": pick(r, "third", "half")},
			{"a": "bond", "u": "u3", "sz": pick(r, "100000", "7", "123456789")},
			{"a": "unbond", "u": "u3", "frac": "all"}, blk(5),
			{"a": "bond", "u": "u3", "sz": pick(r, "1", "2", "3")}, {"a": "unbond", "u": "u4", "frac": "tiny"}, blk(5),
			{"a": "unbond", "u": "u3", "frac": "all"}, blk(5)}
	case 5: // opposite-direction swap requests in one block, one of which fails when executed
		return []Step{{"a": "swapIn", "u": "u1", "p": float64(2), "din": "uelys", "sz": "s1", "limit": "loose"},
			{"a": "swapIn", "u": "u3", "p": float64(2), "din": "uusdc", "sz": pick(r, "s2", "s3"), "limit": "loose"},
			{"a": "swapIn", "u": "u2", "p": float64(2), "din": "uusdc", "sz": "s1", "limit": "tight"}, blk(5), blk(5),
			{"a": "swapOut", "u": "u1", "p": float64(2), "din": "uelys", "sz": "s1", "limit": "tight"},
			{"a": "swapOut", "u": "u3", "p": float64(2), "din": "uelys", "sz": "s2", "limit": "loose"},
			{"a": "swapIn", "u": "u2", "p": float64(2), "din": "uusdc", "sz": "s1", "limit": "loose", "rcpt": "u3"}, blk(5), blk(5)}
	case 6: // two leveraged positions that become liquidatable in the same sweep
		return []Step{{"a": "levOpen", "u": "u2", "p": float64(1), "sz": "s1", "lev": "9"}, {"a": "levOpen", "u": "u3", "p": float64(1), "sz": "s1", "lev": "9"},
			{"a": "levOpen", "u": "u1", "p": float64(1), "sz": "s1", "lev": "2"}, blk(5),
			{"a": "feed", "asset": "ATOM", "mul": pick(r, "0.75", "0.7")}, blk(5), blk(5),
			{"a": "levClose", "u": "u1", "id": float64(3), "frac": "half"}, blk(5),
			{"a": "levClose", "u": "u1", "id": float64(3), "frac": "allbut1"}, blk(5), {"a": "levClose", "u": "u1", "id": float64(3), "frac": "all"}, blk(5)}
	default: // interest settlement that leaves the position open (long-only pool), followed by amm-side operations
		return []Step{{"a": "perpOpen", "u": u, "p": float64(1), "side": "long", "coll": pick(r, "uusdc", "trading"), "sz": "s1", "lev": "5"}, blk(5), blk(3600 * 24),
			{"a": "perpClosePositions", "u": "bot", "liq": []any{[]any{u, float64(1)}}}, blk(5),
			{"a": "swapIn", "u": "u3", "p": float64(1), "din": "uusdc", "sz": "s1", "limit": "loose"}, blk(5),
			{"a": "join", "u": "u3", "p": float64(1), "sz": "s1", "mode": "all"}, blk(5)}
	}
}

func cmdGen(args []string) {
	fs := flag.NewFlagSet("gen", flag.ExitOnError)
	family := fs.String("family", "ledger", "family")
	n := fs.Int("n", 10, "number of schedules")
	depth := fs.Int("depth", 30, "steps per schedule")
	seed := fs.Int64("seed", 1, "seed")
	out := fs.String("out", "", "output ndjson")
	fs.Parse(args)
	f, err := os.Create(*out)
	if err != nil {
		panic(err)
	}
	defer f.Close()
	for i := 0; i < *n; i++ {
		r := rand.New(rand.NewSource(*seed*1000003 + int64(i)))
		genIndex = i
		genSeed = *seed
		var s Schedule
		s.ID = fmt.Sprintf("%s-walk-%d-%d", *family, *seed, i)
		s.Scene = *family
		switch *family {
		case "ledger", "rewards":
			s.Steps = genLedgerWalk(r, *depth)
		case "positions":
			s.Steps = genPositionsWalk(r, *depth)
		case "scenario":
			s.Scene = "positions"
			s.Steps = genScenario(r, i)
			// a scenario is followed by a short random walk so that later operations see its aftermath
			s.Steps = append(s.Steps, genPositionsWalk(r, *depth)...)
		default:
			if g, ok := extraGens[*family]; ok {
				s.Scene, s.Steps = g(r, *depth)
			} else {
				panic("unknown family " + *family)
			}
		}
		if wrapFamilies[*family] && (i%4 == 0 || i%4 == 3) { // (the other indices carry scripted corners: left as written)
			wr := rand.New(rand.NewSource(*seed*7919 + int64(i)*31 + 5))
			wrapRolledBack(wr, s.Steps, 10)
			s.Steps = composeMulti(wr, s.Steps, 8)
		}
		bz, _ := json.Marshal(s)
		f.Write(bz)
		f.Write([]byte("\n"))
	}
}

// Composite transactions that are rolled back (driver steps "poison" / "twin"): in the walks of these families about one
// transaction step in `oneIn` is replaced by the same message(s) followed by a message that fails, so the whole branch of
// the transaction is discarded after the keepers, hooks and caches have seen it.
var wrapFamilies = map[string]bool{"ledger": true, "positions": true, "chain": true, "orders": true}
var wrapable = map[string]bool{"swapIn": true, "swapOut": true, "join": true, "exit": true, "bond": true, "unbond": true, "levOpen": true, "levClose": true,
	"perpOpen": true, "perpClose": true, "perpClosePositions": true, "levClosePositions": true, "claim": true, "send": true, "spotOrder": true,
	"execOrders": true, "commitClaimed": true, "uncommit": true, "incentive": true, "createAssetInfo": true, "cancelSpot": true, "perpOrder": true, "stake": true, "unstake": true, "withdrawStaking": true, "swapByDenom": true}

// closeLists builds a bot's close-positions step: the requests go into one of the message's lists; one time in three the SAME
// requests are named in a second list as well (a bot that lists a position both for liquidation and for its stop-loss).
func closeLists(r *rand.Rand, action string, reqs []any, lists ...string) Step {
	st := Step{"a": action, "u": "bot"}
	first := pick(r, lists...)
	st[first] = reqs
	// (leveragelp's ValidateBasic refuses an id named twice in one message; perpetual's does not look across the lists)
	if r.Intn(3) == 0 && action == "perpClosePositions" {
		second := pick(r, lists...)
		if second != first {
			st[second] = reqs
		}
	}
	return st
}

// composeMulti: about one transaction step in `oneIn` is combined with the same user's next transaction step (pulled forward)
// into ONE transaction carrying both messages (driver step "multi").  Bot messages that process several positions / orders
// stay single (their sub-step observations belong to one message).
var multiExcluded = map[string]bool{"perpClosePositions": true, "levClosePositions": true, "execOrders": true}

func composeMulti(r *rand.Rand, st []Step, oneIn int) []Step {
	var out []Step
	used := map[int]bool{}
	for i := range st {
		if used[i] {
			continue
		}
		a := st[i].S("a")
		if wrapable[a] && !multiExcluded[a] && r.Intn(oneIn) == 0 {
			for j := i + 1; j < len(st) && j <= i+6; j++ {
				b := st[j].S("a")
				if !used[j] && wrapable[b] && !multiExcluded[b] && st[j].S("u") == st[i].S("u") {
					out = append(out, Step{"a": "multi", "u": st[i].S("u"), "inner": []any{map[string]any(st[i]), map[string]any(st[j])}})
					used[i], used[j] = true, true
					break
				}
			}
			if used[i] {
				continue
			}
		}
		out = append(out, st[i])
	}
	return out
}

func wrapRolledBack(r *rand.Rand, st []Step, oneIn int) {
	for i := range st {
		if wrapable[st[i].S("a")] && r.Intn(oneIn) == 0 {
			st[i] = Step{"a": pick(r, "poison", "twin"), "inner": map[string]any(st[i])}
		}
	}
}

var genIndex int // index of the schedule being generated (scripted prefixes are placed deterministically)
var genSeed int64 // the seed of the generation run

var extraGens = map[string]func(r *rand.Rand, depth int) (string, []Step){}
