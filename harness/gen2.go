//go:build verif

package main

import (
	"fmt"
	"math/rand"
)

// Random-walk generators of the small deterministic sub-machines (vesting, oracle): long weighted walks that
// complement the exhaustive / simulated behaviours of spec/mc/MC_vesting.tla and MC_oracle.tla.

func init() {
	extraGens["vesting"] = func(r *rand.Rand, depth int) (string, []Step) { return "vesting", genVestingWalk(r, depth) }
	extraGens["batch"] = func(r *rand.Rand, depth int) (string, []Step) { return "ledger", genBatchWalk(r, depth) }
	extraGens["orders"] = func(r *rand.Rand, depth int) (string, []Step) { return "orders", genOrdersWalk(r, depth) }
	extraGens["chain"] = func(r *rand.Rand, depth int) (string, []Step) {
		st := genChainWalk(r, depth)
		if genIndex%4 == 3 { // every fourth walk runs in the variant whose Elys pool is an oracle pool
			return "chain-o", st
		}
		return "chain", st
	}
	extraGens["oracle"] = func(r *rand.Rand, depth int) (string, []Step) { return "oracle", genOracleWalk(r, depth) }
}

func genVestingWalk(r *rand.Rand, n int) []Step {
	var st []Step
	// two thirds of the walks run under a longer schedule, so that claims fall inside running schedules
	if r.Intn(3) > 0 {
		st = append(st, Step{"a": "govVestInfo", "num": float64(pick(r, 5, 10, 10, 30)), "max": float64(3)})
	}
	if genIndex%6 == 1 {
		// scripted corner: all EdenB committed, Eden committed, then part of the Eden uncommitted (burns committed EdenB)
		st = append(st, Step{"a": "commitClaimed", "u": "u2", "d": "uedenb", "frac": "all"}, Step{"a": "commitClaimed", "u": "u2", "d": "ueden", "frac": "half"},
			Step{"a": "block", "n": float64(2)}, Step{"a": "uncommit", "u": "u2", "d": "ueden", "frac": "third"}, Step{"a": "block", "n": float64(1)})
	}
	// a third start with the scripted corner: release part, cancel part, claim again at an unlucky height
	if r.Intn(3) == 0 {
		st = append(st, Step{"a": "vest", "u": "u1", "amt": pick(r, "1000", "1000003", "999999")}, Step{"a": "block", "n": float64(pick(r, 1, 2, 3))},
			Step{"a": "claimVesting", "u": "u1"}, Step{"a": "block", "n": float64(pick(r, 1, 1, 2))},
			Step{"a": "cancelVest", "u": "u1", "frac": pick(r, "third", "half", "most")})
		if r.Intn(2) == 0 {
			st = append(st, Step{"a": "block", "n": float64(1)})
		}
		st = append(st, Step{"a": "claimVesting", "u": "u1"}, Step{"a": "block", "n": float64(pick(r, 1, 3))}, Step{"a": "claimVesting", "u": "u1"})
	}
	for i := 0; i < n; i++ {
		u := pick(r, "u1", "u1", "u1", "u2")
		switch r.Intn(20) {
		case 0, 1, 2, 3:
			st = append(st, Step{"a": "vest", "u": u, "amt": pick(r, "1", "2", "7", "1000", "1000003", "999999")})
		case 4, 5, 6, 7, 8:
			st = append(st, Step{"a": "claimVesting", "u": u})
		case 9, 10, 11:
			st = append(st, Step{"a": "cancelVest", "u": u, "frac": pick(r, "one", "third", "half", "most", "all", "over")})
		case 12:
			st = append(st, Step{"a": "vestNow", "u": u, "amt": pick(r, "7", "90", "180", "100000")})
		case 13:
			st = append(st, Step{"a": "govVestInfo", "num": float64(pick(r, 1, 2, 3, 5, 10)), "max": float64(pick(r, 1, 3, 3))})
		case 15:
			st = append(st, Step{"a": "vestLiquid", "u": u, "d": "uusdc", "amt": pick(r, "1000", "7", "500000")})
		case 14:
			// Eden / EdenB in and out of the committed bucket (uncommitting Eden burns EdenB proportionally)
			st = append(st, Step{"a": pick(r, "commitClaimed", "commitClaimed", "uncommit"), "u": u, "d": pick(r, "ueden", "uedenb"), "frac": pick(r, "third", "half", "all", "one", "over", "twice")})
		default:
			st = append(st, Step{"a": "block", "n": float64(pick(r, 1, 1, 1, 2, 3, 7))})
		}
	}
	return st
}

var oracleAssets = []string{"ETH", "ETHZ", "ETHel", "ETHelys", "ETHe", "WBTC", "WBTC.e", "ATOM", "ibc/ETH"}
var oracleSources = []string{"elys", "elys", "band", "ys", "x", "lys", "elysium", "binance"}

func genOracleWalk(r *rand.Rand, n int) []Step {
	var st []Step
	px := func() string {
		if r.Intn(3) == 0 { // feeders re-send unchanged quotes all the time (a stable coin is 1.00 block after block)
			return pick(r, "1.00", "1.00", "2.50", "3000.00")
		}
		return fmt.Sprintf("%d.%02d", 1+r.Intn(3000), r.Intn(100))
	}
	if genIndex%8 == 2 {
		// scripted corner: the same quote re-fed block after block (single and multi-feed messages) across the expiry of the first
		// entry, with an older band quote of the asset around
		a, v := pick(r, "ETH", "WBTC", "ATOM"), pick(r, "1.00", "2500.00")
		st = append(st, Step{"a": "feed", "u": "feeder", "asset": a, "src": "band", "px": px()}, Step{"a": "feedMulti", "u": "feeder", "feeds": []any{[]any{a, "elys", v}}}, Step{"a": "block", "dt": float64(5)})
		for k := 0; k < 5; k++ {
			if k%2 == 0 {
				st = append(st, Step{"a": "feedMulti", "u": "feeder", "feeds": []any{[]any{a, "elys", v}, []any{pick(r, oracleAssets...), "elys", px()}}})
			} else {
				st = append(st, Step{"a": "feed", "u": "feeder", "asset": a, "src": "elys", "px": v})
			}
			st = append(st, Step{"a": "block", "dt": float64(pick(r, 5, 20, 30))})
		}
		st = append(st, Step{"a": "block", "dt": float64(5)})
	}
	if genIndex%8 == 4 {
		// scripted corner: feeds at block times whose big-endian bytes contain the key separator '/' (0x2F), with an older
		// live entry of the same source and a band entry of the same asset around
		a := pick(r, "ETH", "WBTC", "ATOM")
		st = append(st, Step{"a": "feed", "u": "feeder", "asset": a, "src": "elys", "px": px()}, Step{"a": "block", "dt": float64(5)},
			Step{"a": "feed", "u": "feeder", "asset": a, "src": "band", "px": px()}, Step{"a": "feed", "u": "feeder", "asset": a, "src": "elys", "px": px()},
			Step{"a": "blockAtByte", "idx": float64(0)}, Step{"a": "block", "dt": float64(5)},
			Step{"a": "feed", "u": "feeder", "asset": a, "src": "elys", "px": px()}, Step{"a": "block", "dt": float64(7)},
			Step{"a": "feed", "u": "feeder", "asset": a, "src": "band", "px": px()}, Step{"a": "feed", "u": "feeder", "asset": a, "src": "elys", "px": px()},
			Step{"a": "blockAtByte", "idx": float64(pick(r, 1, 1, 2))}, Step{"a": "block", "dt": float64(5)})
	}
	if genIndex%8 == 0 {
		// scripted corner: two (asset, source) pairs with the same concatenation fed in one block, then looked up and expired
		st = append(st, Step{"a": "feed", "u": "feeder", "asset": "ETH", "src": "elys", "px": px()}, Step{"a": "feed", "u": "feeder", "asset": "ETHe", "src": "lys", "px": px()},
			Step{"a": "block", "dt": float64(5)}, Step{"a": "feed", "u": "feeder", "asset": "ETHZ", "src": "band", "px": px()}, Step{"a": "block", "dt": float64(30)})
	}
	for i := 0; i < n; i++ {
		switch r.Intn(16) {
		case 0, 1, 2, 3, 4, 5:
			st = append(st, Step{"a": "feed", "u": pick(r, "feeder", "feeder", "feeder", "f2", "u1"), "asset": pick(r, oracleAssets...), "src": pick(r, oracleSources...), "px": px()})
		case 6, 7:
			var feeds []any
			for k := 0; k < 2+r.Intn(3); k++ {
				feeds = append(feeds, []any{pick(r, oracleAssets...), pick(r, oracleSources...), px()})
			}
			st = append(st, Step{"a": "feedMulti", "u": pick(r, "feeder", "feeder", "f2"), "feeds": feeds})
		case 8:
			st = append(st, Step{"a": "setFeeder", "u": pick(r, "feeder", "f2", "f2", "u1"), "active": pick(r, "true", "false")})
		case 9:
			switch r.Intn(4) {
			case 0:
				st = append(st, Step{"a": "delFeeder", "u": pick(r, "f2", "u1", "feeder")})
			case 1:
				st = append(st, Step{"a": "govAddFeeder", "u": pick(r, "f2", "u1", "feeder")})
			case 2:
				st = append(st, Step{"a": "govRemoveFeeder", "u": pick(r, "f2", "u1")})
			default:
				st = append(st, Step{"a": "setFeeder", "u": "feeder", "active": "true"})
			}
		default:
			st = append(st, Step{"a": "block", "dt": float64(pick(r, 1, 3, 5, 5, 7, 20, 30, 47, 61, 200)), "n": float64(pick(r, 1, 1, 1, 2, 3))})
		}
	}
	return st
}

// genBatchWalk: blocks carrying several swap requests at once (same and opposite directions on the same pool, two-hop
// routes sharing a pool, both forms, tight / impossible limits, recipients other than the sender), optionally together
// with a price-moving join / exit in the same block.
func genBatchWalk(r *rand.Rand, n int) []Step {
	var st []Step
	users := []string{"u1", "u2", "u3"}
	if genIndex%6 == 3 {
		// scripted corner: the oracle pool 3 is pushed far off its target weights by one big trade; then several exact-in requests in
		// the weight-RECOVERING direction share a block, their minimum a little above what the pool itself is estimated to pay
		// (the recovery bonus comes from the pool's treasury and the first request executed may leave nothing for the next)
		st = append(st, Step{"a": "swapIn", "u": "u2", "p": float64(3), "din": "uusdc", "sz": pick(r, "x2", "x2", "big"), "limit": "loose"}, Step{"a": "block", "dt": float64(5)})
		for k := 0; k < 2; k++ {
			st = append(st, Step{"a": "swapIn", "u": "u3", "p": float64(3), "din": "uusdt", "sz": pick(r, "s2", "s3"), "limit": pick(r, "plus01", "plus03", "plus1")},
				Step{"a": "swapIn", "u": "u1", "p": float64(3), "din": "uusdt", "sz": pick(r, "s2", "s1"), "limit": pick(r, "plus01", "plus03", "plus1", "plus3")},
				Step{"a": "swapIn", "u": "u2", "p": float64(3), "din": "uusdt", "sz": "s2", "limit": pick(r, "tight", "plus01")}, Step{"a": "block", "dt": float64(5)})
		}
	}
	if genIndex%6 == 5 {
		// scripted corner: a two-hop exact-in request with a tight minimum shares a block with a request in the OPPOSITE direction on its
		// first hop's pool, placed before it, and the price of its SECOND hop's pool moves against it after it was accepted: the end
		// blocker tries the two as a pair, one succeeds, the other fails half way (on its second hop)
		for k := 0; k < 3; k++ {
			// (the end blocker settles the opposite pair first, whatever the order of the other requests: the price of the second hop's
			// pool is therefore moved at TRANSACTION time, by a single-sided join placed after the request was accepted)
			if k == 0 { // first hop through the ORACLE pool 3 (the pair is ranked by the pool's stacked slippage)
				st = append(st, Step{"a": "swapIn", "u": "u3", "p": float64(3), "din": "uusdc", "sz": pick(r, "s2", "s3"), "limit": "loose"},
					Step{"a": "swapIn", "u": "u2", "route": []any{float64(3), float64(1)}, "din": "uusdt", "sz": pick(r, "s1", "s2"), "limit": "tight", "rcpt": pick(r, "", "u4")},
					Step{"a": "join", "u": "u1", "p": float64(1), "sz": pick(r, "s3", "s2"), "mode": "single", "d": "uusdc"})
			} else if r.Intn(2) == 0 {
				st = append(st, Step{"a": "swapIn", "u": "u3", "p": float64(1), "din": "uusdc", "sz": pick(r, "s2", "s3"), "limit": "loose"},
					Step{"a": "swapIn", "u": "u2", "route": []any{float64(1), float64(2)}, "din": "uatom", "sz": pick(r, "s1", "s2"), "limit": "tight", "rcpt": pick(r, "", "u4")},
					Step{"a": "join", "u": "u1", "p": float64(2), "sz": pick(r, "s3", "s2"), "mode": "single", "d": "uusdc"})
			} else {
				st = append(st, Step{"a": "swapIn", "u": "u3", "p": float64(2), "din": "uusdc", "sz": pick(r, "s2", "s3"), "limit": "loose"},
					Step{"a": "swapIn", "u": "u2", "route": []any{float64(2), float64(1)}, "din": "uelys", "sz": pick(r, "s1", "s2"), "limit": "tight", "rcpt": pick(r, "", "u4")},
					Step{"a": "join", "u": "u1", "p": float64(1), "sz": pick(r, "s3", "s2"), "mode": "single", "d": "uusdc"})
			}
			st = append(st, Step{"a": "block", "dt": float64(5)})
		}
	}
	for len(st) < n {
		k := 2 + r.Intn(5)
		for i := 0; i < k; i++ {
			u := pick(r, users...)
			form := pick(r, "swapIn", "swapIn", "swapOut")
			s := Step{"a": form, "u": u, "sz": pick(r, "dust", "s1", "s2", "s2", "s3"), "limit": pick(r, "loose", "loose", "tight", "tight", "impossible"),
				"rcpt": pick(r, "", "", "u3", "u4")}
			switch r.Intn(6) {
			case 0:
				s["route"], s["din"] = []any{float64(1), float64(2)}, "uatom"
			case 1:
				s["route"], s["din"] = []any{float64(2), float64(1)}, "uelys"
			case 2:
				pid := float64(1 + r.Intn(2))
				s["route"], s["din"] = []any{pid, pid}, "uusdc"
			default:
				s["p"], s["din"] = float64(1+r.Intn(2)), pick(r, "uusdc", "")
			}
			st = append(st, s)
			if r.Intn(24) == 0 { // a request placed through the route-finding front end in the same block (the block's parse is then opaque)
				st = append(st, Step{"a": "swapByDenom", "u": pick(r, users...), "din": pick(r, "uatom", "uelys", "uusdc"), "dout": pick(r, "uusdc", "uatom", "uelys"),
					"sz": pick(r, "1000000", "s1", "s2"), "rcpt": pick(r, "", "u4")})
			}
			if r.Intn(6) == 0 {
				st = append(st, pick(r, Step{"a": "join", "u": pick(r, users...), "p": float64(1 + r.Intn(2)), "sz": "s3", "mode": "all"},
					Step{"a": "exit", "u": "u1", "p": float64(1 + r.Intn(2)), "frac": "third"}))
			}
		}
		st = append(st, Step{"a": "block", "dt": float64(5)})
		if r.Intn(3) == 0 {
			st = append(st, Step{"a": "fee", "d": pick(r, "uusdc", "uatom", "uelys")})
		}
	}
	return st
}

// genOrdersWalk: spot and perpetual limit orders (scene "orders": oracle pool 1 uatom/uusdc with perpetual trading, pool 2
// uelys/uusdc): create / update / cancel by owners and by others, permissionless execution requests naming arbitrary ids,
// trigger prices below / at / above the market, oracle price moves, executions made to fail.
func genOrdersWalk(r *rand.Rand, n int) []Step {
	var st []Step
	users := []string{"u2", "u3", "u1"}
	nextSpot, nextPerp := 1, 1
	ids := func(max int) []any {
		out := []any{}
		for k := 0; k < 1+r.Intn(3); k++ {
			out = append(out, float64(1+r.Intn(max+1)))
		}
		return out
	}
	muls := []string{"0.5", "0.9", "0.999", "1", "1.001", "1.1", "2"}
	if genIndex%5 == 3 {
		// scripted corner: one execution request naming a triggered whale limit-open (its open fails on pool health AFTER the
		// collateral has moved) followed by an order that is merely skipped / executed
		st = append(st, Step{"a": "perpOrder", "u": "u2", "p": float64(1), "side": "long", "sz": pick(r, "20%", "20%", "s3"), "trig": "1.1", "lev": pick(r, "5", "9")},
			Step{"a": "perpOrder", "u": "u3", "p": float64(1), "side": "long", "sz": "1000000", "trig": pick(r, "0.5", "1.1"), "lev": "2"},
			Step{"a": "spotOrder", "u": "u3", "type": "LIMITSELL", "base": "uatom", "quote": "uusdc", "d": "uatom", "target": "uusdc", "sz": "s1", "mul": "0.5"},
			Step{"a": "block", "dt": float64(5)},
			// (an execution request naming a NOT triggered spot order panics in the event constructor and is rolled back as a
			// whole - outside the listed properties - so the spot order here is a triggered one)
			Step{"a": "execOrders", "u": "bot", "spot": pick(r, []any{}, []any{float64(1)}), "perp": []any{float64(1), float64(2)}}, Step{"a": "block", "dt": float64(5)},
			Step{"a": "cancelPerpOrder", "u": "u2", "id": float64(1)}, Step{"a": "block", "dt": float64(5)})
		nextSpot, nextPerp = 2, 3
	}
	for i := 0; i < n; i++ {
		u := pick(r, users...)
		switch r.Intn(20) {
		case 0, 1, 2:
			typ := pick(r, "LIMITSELL", "STOPLOSS", "LIMITBUY", "LIMITBUY")
			base, quote := "uatom", "uusdc"
			if typ == "LIMITBUY" {
				base, quote = "uusdc", pick(r, "uatom", "uelys")
			} else if r.Intn(3) == 0 {
				base = "uelys"
			}
			st = append(st, Step{"a": "spotOrder", "u": u, "type": typ, "base": base, "quote": quote, "d": base, "target": quote,
				"sz": pick(r, "s1", "s2", "100", "1000000"), "mul": pick(r, muls...)})
			nextSpot++
		case 3:
			st = append(st, Step{"a": "spotOrder", "u": u, "type": "MARKETBUY", "base": "uusdc", "quote": "uatom", "d": "uusdc", "target": "uatom", "sz": pick(r, "s1", "1000000"), "mul": "1"})
		case 4, 5, 6:
			st = append(st, Step{"a": "perpOrder", "u": u, "p": float64(1), "side": pick(r, "long", "long", "short"), "sz": pick(r, "s1", "1000000", "s2", "20%"),
				"trig": pick(r, muls...), "lev": pick(r, "2", "3", "5", "9")})
			nextPerp++
		case 7:
			st = append(st, Step{"a": "updateSpot", "u": pick(r, users...), "id": float64(1 + r.Intn(nextSpot)), "mul": pick(r, muls...)})
		case 8:
			st = append(st, Step{"a": "updatePerpOrder", "u": pick(r, users...), "id": float64(1 + r.Intn(nextPerp)), "mul": pick(r, "0.8", "0.999", "1", "1.001", "1.2")})
		case 9:
			st = append(st, Step{"a": "cancelSpot", "u": pick(r, users...), "id": float64(1 + r.Intn(nextSpot))})
		case 10:
			st = append(st, Step{"a": "cancelPerpOrder", "u": pick(r, users...), "id": float64(1 + r.Intn(nextPerp))})
		case 11:
			if r.Intn(2) == 0 {
				st = append(st, Step{"a": "cancelSpots", "u": pick(r, users...), "ids": ids(nextSpot)})
			} else {
				st = append(st, Step{"a": "cancelPerpOrders", "u": pick(r, users...), "ids": ids(nextPerp)})
			}
		case 12, 13, 14:
			st = append(st, Step{"a": "execOrders", "u": pick(r, "bot", "bot", "u3", "u2"), "spot": pick(r, ids(nextSpot), []any{}), "perp": pick(r, ids(nextPerp), []any{})})
		case 15, 16:
			st = append(st, Step{"a": "feed", "asset": pick(r, "ATOM", "ATOM", "ELYS"), "mul": pick(r, "0.8", "0.9", "0.97", "1.03", "1.1", "1.25")})
		case 17:
			// make later perpetual opens fail: a big position / a withdrawal that lowers pool health
			st = append(st, pick(r, Step{"a": "perpOpen", "u": "u1", "p": float64(1), "side": "long", "coll": "uusdc", "sz": "s3", "lev": "5"},
				Step{"a": "exit", "u": "u1", "p": float64(1), "frac": "65%"},
				Step{"a": "swapIn", "u": "u1", "p": float64(1), "din": "uusdc", "sz": "s3", "limit": "loose"}))
		case 18:
			st = append(st, Step{"a": "perpClose", "u": u, "id": float64(1 + r.Intn(3)), "frac": "all"})
		default:
			st = append(st, Step{"a": "block", "dt": float64(pick(r, 5, 5, 60))})
			continue
		}
		if r.Intn(2) == 0 {
			st = append(st, Step{"a": "block", "dt": float64(pick(r, 5, 5, 60))})
		}
	}
	return st
}

// genChainWalk (C18 / C19): the widest user alphabet interleaved with environment faults - oracle outages (prices live
// for 3 blocks / 1 hour in scene "chain"), block-time gaps up to 40 days (several epochs at once), fees paid in any denom
// (incl. one without a pool and one unknown to the oracle), dust amounts, sends to the zero address before an epoch end.
func genChainWalk(r *rand.Rand, n int) []Step {
	var st []Step
	users := []string{"u1", "u2", "u3"}
	outage := 0
	nextLev, nextPerp := 1, 1
	sizes := []string{"one", "dust", "s1", "s2", "s3"}
	if genIndex%4 == 1 {
		// scripted corner: an external incentive starts while every oracle price has expired (the pools' TVL reads zero), somebody
		// joins the constant-product pool during the outage, then the feeders return; afterwards everybody claims
		st = append(st, Step{"a": "block", "dt": float64(4000)}, Step{"a": "block", "dt": float64(5)},
			Step{"a": "incentive", "u": "u2", "p": float64(2), "d": pick(r, "uatom", "uusdc"), "perBlock": "1000000", "from": float64(0), "len": float64(12)},
			Step{"a": "block", "dt": float64(5)}, Step{"a": "block", "dt": float64(5)},
			Step{"a": "join", "u": "u3", "p": float64(2), "sz": pick(r, "s2", "s3"), "mode": "all"}, Step{"a": "block", "dt": float64(5)}, Step{"a": "block", "dt": float64(5)},
			Step{"a": "feedAll"}, Step{"a": "block", "dt": float64(5)}, Step{"a": "feedAll"}, Step{"a": "block", "dt": float64(5)},
			Step{"a": "claim", "u": "u3", "pools": []any{float64(2)}}, Step{"a": "claim", "u": "u1", "pools": []any{float64(2)}}, Step{"a": "feedAll"}, Step{"a": "block", "dt": float64(5)})
	}
	if genIndex%4 == 2 {
		// scripted corner: no community tax, staking rewards split between the validator and the Eden / EdenB representatives
		// whose stakes change by a few units from block to block (every split rounds differently) while fees keep arriving
		st = append(st, Step{"a": "govDistrTax", "value": "0"}, Step{"a": "commitClaimed", "u": "u1", "d": "ueden", "frac": pick(r, "third", "half")},
			Step{"a": "commitClaimed", "u": "u2", "d": "uedenb", "frac": pick(r, "third", "half", "most")}, Step{"a": "feedAll"}, Step{"a": "block", "dt": float64(5)})
		for k := 0; k < 12 && k < n/8; k++ {
			st = append(st, Step{"a": "commitClaimed", "u": pick(r, users...), "d": pick(r, "ueden", "uedenb"), "frac": pick(r, "one", "tiny", "third")},
				Step{"a": "fee", "d": "uusdc", "amt": float64(pick(r, 7, 2000, 5000000))}, Step{"a": "feedAll"}, Step{"a": "block", "dt": float64(5)})
		}
	}
	for i := 0; i < n; i++ {
		u := pick(r, users...)
		switch r.Intn(34) {
		case 31: // commitment's staking front end: uelys delegated to the validator, Eden / EdenB committed
			st = append(st, Step{"a": "stake", "u": u, "d": pick(r, "uelys", "uelys", "ueden", "uedenb", "uusdc", "amm/pool/2"), "frac": pick(r, "one", "tiny", "third", "half", "over", "twice")})
		case 32:
			// (the message accepts any denom: pool shares and vault shares are asked for too - only Elys, Eden and EdenB may come out)
			st = append(st, Step{"a": "unstake", "u": pick(r, u, u, "u1"), "d": pick(r, "uelys", "uelys", "ueden", "uedenb", "amm/pool/1", "amm/pool/2", "stablestake/share"), "frac": pick(r, "one", "third", "half", "all", "over", "twice")})
		case 33:
			if r.Intn(3) == 0 {
				st = append(st, Step{"a": "swapByDenom", "u": u, "din": pick(r, "uatom", "uelys", "uusdc", "uusdt"), "dout": pick(r, "uusdc", "uatom", "uelys"),
					"sz": pick(r, "1000", "1000000", "s1", "s2"), "rcpt": pick(r, "", "", "u4")})
			} else if r.Intn(3) == 0 {
				st = append(st, Step{"a": "setPortfolio", "u": u, "of": pick(r, users...)})
			} else {
				st = append(st, Step{"a": "withdrawStaking", "u": u, "kind": pick(r, "all", "elys")})
			}
		case 29: // (half of the former block steps) rarely: a user creates one more constant-product pool
			if r.Intn(6) == 0 {
				st = append(st, Step{"a": "createPool", "kind": "bal", "fee": pick(r, "0.003", "0"), "d1": pick(r, "uusdt", denomWBTC, "uatom"), "d2": "uusdc",
					"a1": pick(r, "100000000", "5000"), "a2": pick(r, "100000000", "7000")})
			} else {
				if outage > 0 {
					outage--
				} else {
					st = append(st, Step{"a": "feedAll"})
				}
				st = append(st, Step{"a": "block", "dt": float64(pick(r, 5, 5, 5, 60, 3600, 86400))})
			}
		case 30: // the permissionless oracle listing of a denom, sometimes twice in one (then rolled back) transaction
			ls := Step{"a": "createAssetInfo", "u": u, "d": pick(r, "unewa", "unewb", "ibc/NEW"), "display": pick(r, "NEWA", "NEWB")}
			if r.Intn(2) == 0 {
				ls = Step{"a": pick(r, "twin", "poison"), "inner": map[string]any(ls)}
			}
			st = append(st, ls)
		case 0, 1:
			st = append(st, Step{"a": "swapIn", "u": u, "p": float64(1 + r.Intn(2)), "din": pick(r, "uusdc", ""), "sz": pick(r, sizes...), "limit": pick(r, "loose", "tight")})
		case 2:
			st = append(st, Step{"a": "swapOut", "u": u, "p": float64(1 + r.Intn(2)), "din": pick(r, "uusdc", ""), "sz": pick(r, "one", "dust", "s1", "s2"), "limit": "loose"})
		case 3:
			st = append(st, Step{"a": "swapIn", "u": u, "route": []any{float64(1), float64(2)}, "din": "uatom", "sz": pick(r, sizes...), "limit": "loose"})
		case 4:
			st = append(st, Step{"a": "join", "u": u, "p": float64(1 + r.Intn(2)), "sz": pick(r, "one", "s1", "s2", "x2"), "mode": pick(r, "all", "single"), "d": pick(r, "uusdc", "")})
		case 5:
			st = append(st, Step{"a": "exit", "u": pick(r, "u1", u), "p": float64(1 + r.Intn(2)), "frac": pick(r, "one", "third", "most", "allbut1", "all"), "d": pick(r, "", "", "uusdc")})
		case 6:
			st = append(st, Step{"a": "bond", "u": u, "sz": pick(r, "1", "1000000", "250000000000")})
		case 7:
			st = append(st, Step{"a": "unbond", "u": pick(r, "u4", u), "frac": pick(r, "one", "third", "all", "over")})
		case 8, 9:
			st = append(st, Step{"a": "levOpen", "u": u, "p": float64(1), "sz": pick(r, "1000000", "s1", "s2"), "lev": pick(r, "1.5", "2", "5", "9")})
			nextLev++
		case 10:
			st = append(st, Step{"a": "levClose", "u": u, "id": float64(1 + r.Intn(nextLev)), "frac": pick(r, "one", "third", "all", "allbut1")})
		case 11, 12:
			st = append(st, Step{"a": "perpOpen", "u": u, "p": float64(1), "side": pick(r, "long", "long", "short"), "coll": pick(r, "uusdc", "trading"), "sz": pick(r, "1000000", "s1", "s2"), "lev": pick(r, "2", "3", "5", "0")})
			nextPerp++
		case 13:
			st = append(st, Step{"a": "perpClose", "u": u, "id": float64(1 + r.Intn(nextPerp)), "frac": pick(r, "third", "all", "allbut1", "one")})
		case 14:
			reqs := []any{[]any{pick(r, users...), float64(1 + r.Intn(nextPerp))}}
			st = append(st, closeLists(r, "perpClosePositions", reqs, "liq", "sl", "tp"))
		case 15:
			reqs := []any{[]any{pick(r, users...), float64(1 + r.Intn(nextLev))}}
			st = append(st, closeLists(r, "levClosePositions", reqs, "liq", "sl"))
		case 16:
			st = append(st, Step{"a": "claim", "u": u, "pools": []any{float64(1), float64(2), float64(32767)}})
		case 17:
			st = append(st, Step{"a": "feed", "asset": pick(r, "ATOM", "ATOM", "ELYS"), "mul": pick(r, "0.5", "0.8", "0.97", "1.03", "1.25", "2")})
		case 18:
			st = append(st, Step{"a": "fee", "d": pick(r, "uusdc", "uatom", "uelys", "uelys", denomWBTC, "uusdt", "ibc/UNKNOWN"), "amt": float64(pick(r, 1, 7, 2000, 5000000))})
		case 19:
			outage = pick(r, 1, 2, 4, 6, 25) // no price feeds for that many blocks
		case 20:
			st = append(st, Step{"a": "send", "u": u, "to": "zero", "d": pick(r, "uusdc", "uatom", "uelys", "uusdt"), "sz": pick(r, "one", "dust", "s1")})
		case 24:
			st = append(st, Step{"a": "lockAccount", "u": u, "to": pick(r, "zero", "zero", "mod:masterchef", "u4", "revenue:1", "revenue:2", "treasury:2"), "d": pick(r, "uelys", "uusdc"), "amt": pick(r, "1", "1000")})
		case 21:
			st = append(st, Step{"a": "spotOrder", "u": u, "type": pick(r, "LIMITSELL", "STOPLOSS"), "base": "uatom", "quote": "uusdc", "d": "uatom", "target": "uusdc", "sz": "s1", "mul": pick(r, "0.9", "1.1")})
		case 22:
			st = append(st, Step{"a": "execOrders", "u": "bot", "spot": []any{float64(1 + r.Intn(3))}, "perp": []any{}})
		case 25:
			st = append(st, Step{"a": pick(r, "commitClaimed", "commitClaimed", "uncommit"), "u": u, "d": pick(r, "ueden", "uedenb"), "frac": pick(r, "third", "half", "most", "all", "one", "over", "twice")})
		case 26:
			if r.Intn(3) == 0 {
				st = append(st, Step{"a": "govDistrTax", "value": pick(r, "0", "0", "0.02", "0.5", "1")})
			} else {
				st = append(st, Step{"a": "commitClaimed", "u": u, "d": pick(r, "ueden", "uedenb"), "frac": pick(r, "third", "half", "most")})
			}
		case 23:
			st = append(st, Step{"a": "incentive", "u": u, "p": float64(1 + r.Intn(2)), "d": pick(r, "uusdc", "uatom"), "perBlock": pick(r, "1", "1000"), "from": float64(r.Intn(3)), "len": float64(1 + r.Intn(20))})
		default:
			// a block: refresh the prices unless an outage is running; sometimes a long gap
			if outage > 0 {
				outage--
			} else {
				st = append(st, Step{"a": "feedAll"})
			}
			st = append(st, Step{"a": "block", "dt": float64(pick(r, 5, 5, 5, 5, 60, 3600, 3600, 86400, 172800, 3456000))})
		}
	}
	return st
}
