//go:build verif

package main

import (
	"encoding/json"
	"fmt"
	"math/rand"
	"reflect"
	"sort"
	"strconv"
	"strings"

	"cosmossdk.io/math"
	sdk "github.com/cosmos/cosmos-sdk/types"
)

// Parameter extremes (C18: "parameter settings permitted by validation").  For every module whose governance
// MsgUpdateParams carries a Params struct, every numeric leaf of the CURRENT params is set to an extreme value
// (zero / one / huge / all-ones for portions); the modified params go through ValidateBasic and the real handler
// as a governance message.  Whatever validation lets through must not stop the chain: the schedule continues
// with user activity, an oracle outage, an epoch boundary and a long gap.

var paramModules = []string{"amm", "burner", "estaking", "leveragelp", "masterchef", "oracle", "perpetual", "stablestake", "tradeshield"}

func init() {
	extraGens["params"] = func(r *rand.Rand, depth int) (string, []Step) { return "chain", genParamsSchedule(r) }
}

type paramLeaf struct{ Module, Path string }

var paramLeaves []paramLeaf

// leafPaths lists the numeric leaves of a params value ("Field" or "Outer.Inner").
func leafPaths(v reflect.Value, prefix string, depth int, out *[]string) {
	if v.Kind() == reflect.Ptr {
		if v.IsNil() {
			return
		}
		v = v.Elem()
	}
	if v.Kind() != reflect.Struct {
		return
	}
	for i := 0; i < v.NumField(); i++ {
		f := v.Type().Field(i)
		if f.PkgPath != "" || strings.HasPrefix(f.Name, "XXX_") {
			continue
		}
		fv := v.Field(i)
		switch {
		case fv.Type() == tInt || fv.Type() == tDec:
			*out = append(*out, prefix+f.Name)
		case fv.Kind() == reflect.Int64 || fv.Kind() == reflect.Uint64 || fv.Kind() == reflect.Int32 || fv.Kind() == reflect.Uint32:
			*out = append(*out, prefix+f.Name)
		case (fv.Kind() == reflect.Struct || fv.Kind() == reflect.Ptr) && depth < 2:
			leafPaths(fv, prefix+f.Name+".", depth+1, out)
		}
	}
}

func (c *Chain) enumerateParamLeaves() []paramLeaf {
	var out []paramLeaf
	ctx := c.AdminCtx()
	for _, m := range paramModules {
		cp := c.currentParams("/elys."+m+".MsgUpdateParams", ctx)
		if cp == nil {
			continue
		}
		var paths []string
		pv := reflect.ValueOf(cp)
		if pv.Kind() != reflect.Ptr {
			nv := reflect.New(pv.Type())
			nv.Elem().Set(pv)
			pv = nv
		}
		leafPaths(pv, "", 0, &paths)
		sort.Strings(paths)
		for _, p := range paths {
			out = append(out, paramLeaf{m, p})
		}
	}
	return out
}

// setLeaf sets the leaf at path to the extreme `val`.
func setLeaf(root reflect.Value, path, val string) bool {
	v := root
	for _, name := range strings.Split(path, ".") {
		if v.Kind() == reflect.Ptr {
			if v.IsNil() {
				return false
			}
			v = v.Elem()
		}
		v = v.FieldByName(name)
		if !v.IsValid() {
			return false
		}
	}
	n, named := map[string]int64{"zero": 0, "one": 1, "huge": 1_000_000_000_000_000}[val]
	if !named { // an ordinary value: a decimal for Dec leaves, an integer otherwise
		if v.Type() == tDec {
			dv, err := math.LegacyNewDecFromStr(val)
			if err != nil {
				return false
			}
			v.Set(reflect.ValueOf(dv))
			return true
		}
		iv, err := strconv.ParseInt(val, 10, 64)
		if err != nil {
			return false
		}
		n = iv
	}
	switch {
	case v.Type() == tInt:
		v.Set(reflect.ValueOf(math.NewInt(n)))
	case v.Type() == tDec:
		v.Set(reflect.ValueOf(math.LegacyNewDec(n)))
	case v.Kind() == reflect.Int64 || v.Kind() == reflect.Int32:
		v.SetInt(n)
	case v.Kind() == reflect.Uint64 || v.Kind() == reflect.Uint32:
		v.SetUint(uint64(n))
	default:
		return false
	}
	return true
}

// GovParam builds and delivers the governance MsgUpdateParams of a module with one leaf set to an extreme.
func (d *Driver) GovParam(module, path, val string) bool {
	c := d.C
	ctx := c.AdminCtx()
	url := "/elys." + module + ".MsgUpdateParams"
	mt := msgType{URL: url, Signer: "authority", Class: "authority"}
	msg, err := c.buildMsg(mt, c.gov(), ctx)
	ev := newEvent(module+".MsgUpdateParams", "gov")
	ev.Args["field"], ev.Args["value"] = path, val
	if err != nil {
		ev.OK, ev.Log = false, truncate(err.Error(), 200)
		c.recordAdmin(ev)
		return true
	}
	pf := reflect.ValueOf(msg).Elem().FieldByName("Params")
	if !pf.IsValid() {
		return false
	}
	target := pf
	if pf.Kind() != reflect.Ptr {
		target = pf.Addr()
	}
	if !setLeaf(target, path, val) {
		return false
	}
	ev.Args["module"], ev.Args["requested"] = module, flattenParams(target.Interface())
	if vb, ok := msg.(sdk.HasValidateBasic); ok {
		if err := vb.ValidateBasic(); err != nil { // a governance proposal carrying it would be rejected at submission
			ev.OK, ev.Log = false, "ValidateBasic: "+truncate(err.Error(), 200)
			c.recordAdmin(ev)
			return true
		}
	}
	c.AdminEv(ev, msg)
	return true
}

func (c *Chain) recordAdmin(ev *Event) {
	if c.Rec != nil && !c.NoObs {
		c.Rec.Line("Admin", c.Height, c.Time.Unix(), -1, ev, c.Project(c.ReadCtx()))
	}
}

// genParamsSchedule: one extreme (chosen by the schedule index, so that consecutive indices sweep all leaves and values),
// then activity that makes every blocker do real work, an outage, an epoch boundary, a long gap and a recovery.
func genParamsSchedule(r *rand.Rand) []Step {
	vals := []string{"zero", "one", "huge"}
	// a stride through the (leaf, value) combinations, shifted by the seed: consecutive schedules hit different modules
	k := genIndex*37 + int(genSeed%1000)*11
	st := []Step{{"a": "govParamIndex", "i": float64(k / len(vals)), "value": vals[k%len(vals)]}}
	blk := func(dt int) Step { return Step{"a": "block", "dt": float64(dt)} }
	st = append(st, Step{"a": "feedAll"}, blk(5),
		Step{"a": "swapIn", "u": "u2", "p": float64(2), "din": "uusdc", "sz": "s2", "limit": "loose"},
		Step{"a": "levOpen", "u": "u2", "p": float64(1), "sz": "1000000", "lev": "5"},
		Step{"a": "perpOpen", "u": "u3", "p": float64(1), "side": "long", "coll": "uusdc", "sz": "1000000", "lev": "3"},
		Step{"a": "bond", "u": "u3", "sz": "1000000"}, Step{"a": "fee", "d": "uatom", "amt": float64(2000)},
		Step{"a": "incentive", "u": "u2", "p": float64(2), "d": "uusdc", "perBlock": "1000", "from": float64(0), "len": float64(6)},
		Step{"a": "spotOrder", "u": "u2", "type": "LIMITSELL", "base": "uatom", "quote": "uusdc", "d": "uatom", "target": "uusdc", "sz": "s1", "mul": "0.9"},
		Step{"a": "feedAll"}, blk(5),
		Step{"a": "swapIn", "u": "u3", "p": float64(1), "din": "uatom", "sz": "s1", "limit": "loose"},
		Step{"a": "execOrders", "u": "bot", "spot": []any{float64(1)}, "perp": []any{}},
		Step{"a": "join", "u": "u3", "p": float64(1), "sz": "s1", "mode": "single", "d": "uusdc"},
		Step{"a": "perpClosePositions", "u": "bot", "liq": []any{[]any{"u3", float64(1)}}},
		Step{"a": "feedAll"}, blk(60), Step{"a": "feed", "asset": "ATOM", "mul": "0.7"}, blk(5), blk(5),
		Step{"a": "claim", "u": "u1", "pools": []any{float64(1), float64(2), float64(32767)}},
		Step{"a": "levClose", "u": "u2", "id": float64(1), "frac": "half"}, Step{"a": "perpClose", "u": "u3", "id": float64(1), "frac": "all"},
		Step{"a": "unbond", "u": "u3", "frac": "half"}, blk(5),
		// outage long enough to expire the prices, an epoch boundary, a long gap, recovery
		blk(5), blk(5), blk(5), blk(400), Step{"a": "swapIn", "u": "u2", "p": float64(2), "din": "", "sz": "s1", "limit": "loose"}, blk(5), blk(172800),
		Step{"a": "feedAll"}, blk(5), Step{"a": "exit", "u": "u1", "p": float64(2), "frac": "third"}, blk(5))
	return st
}

var _ = fmt.Sprintf

// ---- parameter registry (extended specification, pseudo-property EXT) ----
// Every module's Params as a flat map leaf -> string (the JSON form of the stored value), projected at every
// observation point; a governance MsgUpdateParams carries the REQUESTED params in the same form, so the
// specification can state "only governance changes parameters, and an accepted update stores what was asked".

func flattenJSON(prefix string, v any, out map[string]any) {
	switch x := v.(type) {
	case map[string]any:
		if len(x) == 0 && prefix != "" {
			out[prefix] = "{}"
		}
		for k, e := range x {
			p := k
			if prefix != "" {
				p = prefix + "." + k
			}
			flattenJSON(p, e, out)
		}
	case nil:
		out[prefix] = "null"
	case string:
		out[prefix] = x
	default: // numbers, booleans, arrays: their JSON text
		b, _ := json.Marshal(x)
		out[prefix] = string(b)
	}
}

func flattenParams(p any) map[string]any {
	out := map[string]any{}
	b, err := json.Marshal(p)
	if err != nil {
		return out
	}
	var g any
	if json.Unmarshal(b, &g) != nil {
		return out
	}
	flattenJSON("", g, out)
	return out
}

func (c *Chain) projectParams(ctx sdk.Context) map[string]any {
	out := map[string]any{}
	for _, m := range paramModules {
		if cp := c.currentParams("/elys."+m+".MsgUpdateParams", ctx); cp != nil {
			out[m] = flattenParams(cp)
		}
	}
	return out
}
