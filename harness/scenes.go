//go:build verif

package main

import (
	"fmt"
	"runtime/debug"

	"cosmossdk.io/math"
	sdk "github.com/cosmos/cosmos-sdk/types"
	committypes "github.com/elys-network/elys/x/commitment/types"
	oracletypes "github.com/elys-network/elys/x/oracle/types"
)

func shortStackAll() string { return string(debug.Stack()) }

// sceneFor returns the scene options of a named scene.
func sceneFor(name string) SceneOpts {
	o := DefaultScene()
	switch name {
	case "positions", "orders":
		// the begin-block sweep pages through the leveraged positions two per block (as on a chain with more positions
		// than NumberPerBlock): a position is NOT refreshed in every block, and a page can hold two positions of one pool
		o.LevPerBlock = 2
	case "oracle":
		o.Lifetime = 2
		o.Expiry = 60
		o.NoPrices = true
	case "vesting":
		o.VestBlocks = 3
		o.MaxVestings = 3
	case "chain", "chain-o":
		o.Lifetime = 3
		o.Expiry = 3600
		o.BurnEpoch = "five_minutes"
		o.LevPerBlock = 2
		o.EdenPerYear = "10000000000000"
		o.StakeEdenPerYear = "20000000000000" // stakers earn Eden; the provider portion is vested at every provider epoch
		o.Registry = true
		o.NoMetadata = []string{"uusdt"} // an external asset nobody listed for burning; pool 3 holds it
	case "rewards":
		o.EdenPerYear = "10000000000000"
	}
	return o
}

// prepScene creates the standing pools etc. of a scene through real transactions
// (recorded before the Reset line, i.e. not part of the validated trace).
func prepScene(d *Driver, name string) {
	c := d.C
	rec := c.Rec
	c.Rec = nil // scene construction is not recorded
	defer func() { c.Rec = rec }()
	mk := func(steps ...Step) {
		for _, s := range steps {
			if !d.Apply(s) {
				panic(fmt.Sprintf("scene step failed: %v", s))
			}
		}
	}
	switch name {
	case "oracle":
		// names that are prefixes / concatenations of one another are probed at every observation
		c.ProbeAssets = []string{"ETH", "ETHZ", "ETHel", "ETHelys", "ETHe", "WBTC", "WBTC.e", "BTC", "ATOM", "ibc/ETH", "ibc"}
		c.ProbeDenoms = []string{"uusdc", "uatom", "unknown"}
		c.AddKey("f2")
		ctx := c.AdminCtx()
		c.mint(ctx, c.Addr["f2"], sdk.NewCoins(sdk.NewInt64Coin("uusdc", 1_000_000_000)))
		c.App.OracleKeeper.SetPriceFeeder(ctx, oracletypes.PriceFeeder{Feeder: c.Addr["f2"].String(), IsActive: false})
	case "vesting":
		// u1 and u2 hold claimable Eden (as masterchef / estaking rewards would credit it)
		ctx := c.AdminCtx()
		// a second vesting route: liquid uusdc vests into uusdc over 5 blocks (MsgVestLiquid)
		cp := c.App.CommitmentKeeper.GetParams(ctx)
		cp.VestingInfos = append(cp.VestingInfos, committypes.VestingInfo{BaseDenom: "uusdc", VestingDenom: "uusdc", NumBlocks: 5,
			VestNowFactor: math.NewInt(90), NumMaxVestings: 3})
		c.App.CommitmentKeeper.SetParams(ctx, cp)
		for _, n := range []string{"u1", "u2"} {
			coins := sdk.NewCoins(sdk.NewInt64Coin("ueden", 2_000_020), sdk.NewInt64Coin("uedenb", 500_000))
			if err := c.App.CommitmentKeeper.MintCoins(ctx, "masterchef", coins); err != nil {
				panic(err)
			}
			if err := c.App.CommitmentKeeper.SendCoinsFromModuleToAccount(ctx, "masterchef", c.Addr[n], coins); err != nil {
				panic(err)
			}
		}
	case "ledger", "rewards", "":
		// pool 1: balancer uatom/uusdc fee 0.3 %, pool 2: balancer uelys/uusdc 1:2 weights fee 1 %
		mk(Step{"a": "createPool", "kind": "bal", "fee": "0.003", "d1": "uatom", "d2": "uusdc", "a1": "200000000000", "a2": "1000000000000"},
			Step{"a": "block"},
			Step{"a": "createPool", "kind": "bal", "fee": "0.01", "d1": "uelys", "d2": "uusdc", "a1": "300000000000", "a2": "900000000000", "w1": float64(1), "w2": float64(2)},
			Step{"a": "block"},
			// pool 3: an ORACLE pool without leverage / perpetual trading (no accounted pool: priced from its own reserves)
			Step{"a": "createPool", "kind": "oracle", "fee": "0.001", "d1": "uusdt", "d2": "uusdc", "a1": "500000000000", "a2": "500000000000"},
			Step{"a": "block"})
	case "positions", "orders", "chain", "chain-o":
		elysPoolKind := "bal"
		if name == "chain-o" { // variant of the fault-injecting scene: the Elys pool is an oracle pool too (it prices Eden)
			name, elysPoolKind = "chain", "oracle"
		}
		if name == "chain" {
			// a token the oracle and the asset profile have never heard of (fees may be paid in it)
			ctx := c.AdminCtx()
			// claimable Eden / EdenB (as earlier rewards would have credited them): committing them gives the Eden and EdenB
			// representatives voting power next to the validator, so staking rewards are split three ways
			for i, n := range []string{"u1", "u2", "u3"} {
				coins := sdk.NewCoins(sdk.NewInt64Coin("ueden", int64(250_000_000_007+i*13_000_001)), sdk.NewInt64Coin("uedenb", int64(250_000_000_011+i*7_000_003)))
				if err := c.App.CommitmentKeeper.MintCoins(ctx, "masterchef", coins); err != nil {
					panic(err)
				}
				if err := c.App.CommitmentKeeper.SendCoinsFromModuleToAccount(ctx, "masterchef", c.Addr[n], coins); err != nil {
					panic(err)
				}
			}
			for _, n := range []string{"u1", "u2", "u3"} {
				c.mint(ctx, c.Addr[n], sdk.NewCoins(sdk.NewInt64Coin("ibc/UNKNOWN", 1_000_000_000_000)))
			}
		}
		// pool 1: oracle pool uatom/uusdc with leverage + perpetual enabled; pool 2: balancer uelys/uusdc
		mk(Step{"a": "createPool", "kind": "oracle", "fee": "0.001", "d1": "uatom", "d2": "uusdc", "a1": "200000000000", "a2": "1000000000000"},
			Step{"a": "block"},
			Step{"a": "createPool", "kind": elysPoolKind, "fee": "0.003", "d1": "uelys", "d2": "uusdc", "a1": "300000000000", "a2": "900000000000"},
			Step{"a": "block"})
		mk(Step{"a": "enableLev", "p": float64(1)})
		mk(Step{"a": "bond", "u": "u4", "sz": "2000000000000"}, Step{"a": "block"})
		// external incentives may be paid in these denoms; in the fault-injecting scene the pools also earn Eden
		mk(Step{"a": "govRewardDenom", "d": "uusdc", "min": "1"}, Step{"a": "govRewardDenom", "d": "uatom", "min": "1"})
		if name == "chain" {
			mk(Step{"a": "govToggleEden", "p": float64(1)}, Step{"a": "govToggleEden", "p": float64(2)})
			// pool 3: a user-created constant-product pool holding an asset without bank metadata
			mk(Step{"a": "createPool", "kind": "bal", "fee": "0.002", "d1": "uusdt", "d2": "uusdc", "a1": "400000000000", "a2": "400000000000"}, Step{"a": "block"})
		}
	}
}
