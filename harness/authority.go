//go:build verif

package main

import (
	aptypes "github.com/elys-network/elys/x/assetprofile/types"
	"bufio"
	"crypto/sha256"
	"encoding/json"
	"flag"
	"fmt"
	"os"
	"reflect"
	"sort"
	"strings"

	msgv1 "cosmossdk.io/api/cosmos/msg/v1"
	"cosmossdk.io/math"
	sdk "github.com/cosmos/cosmos-sdk/types"
	authtypes "github.com/cosmos/cosmos-sdk/x/auth/types"
	gogoproto "github.com/cosmos/gogoproto/proto"
	tokenomicstypes "github.com/elys-network/elys/x/tokenomics/types"
	protov2 "google.golang.org/protobuf/proto"
	"google.golang.org/protobuf/reflect/protoreflect"
)

// elysdrv authority -list types.json                       enumerate the message types registered by the running app
// elysdrv authority -cases cases.ndjson -out trace.ndjson  execute (type, sender class, via) cases enumerated by TLC
//
// C17.  The set of message types is read from the RUNNING application (interface registry + message router), each is
// classified by its cosmos.msg.v1.signer annotation ("authority" => governance-only; the elys.parameter messages, whose
// authority field is called "creator", by rule), instantiated by reflection (current module params where the message
// carries Params) and delivered from every sender class.  Nothing here decides: the trace records whether the message
// was accepted and whether the state digest (every module KV store) changed; spec/elys/Authority.tla judges.
func init() { extraCmds["authority"] = cmdAuthority }

type msgType struct {
	URL    string `json:"type"`
	Signer string `json:"signerField"`
	Class  string `json:"class"` // "authority" | "other"
}

func (c *Chain) elysMsgTypes() []msgType {
	reg := c.App.InterfaceRegistry()
	var out []msgType
	for _, url := range reg.ListImplementations(sdk.MsgInterfaceProtoName) {
		if !strings.HasPrefix(url, "/elys.") {
			continue
		}
		if c.App.MsgServiceRouter().HandlerByTypeURL(url) == nil {
			continue
		}
		mt := msgType{URL: url, Class: "other"}
		if d, err := gogoproto.HybridResolver.FindDescriptorByName(protoreflect.FullName(strings.TrimPrefix(url, "/"))); err == nil {
			if md, ok := d.(protoreflect.MessageDescriptor); ok {
				if s, ok := protov2.GetExtension(md.Options(), msgv1.E_Signer).([]string); ok && len(s) > 0 {
					mt.Signer = s[0]
				}
			}
		}
		if mt.Signer == "authority" || strings.HasPrefix(url, "/elys.parameter.") {
			mt.Class = "authority"
		}
		out = append(out, mt)
	}
	sort.Slice(out, func(i, j int) bool { return out[i].URL < out[j].URL })
	return out
}

func protoName(f reflect.StructField) string {
	for _, p := range strings.Split(f.Tag.Get("protobuf"), ",") {
		if strings.HasPrefix(p, "name=") {
			return strings.TrimPrefix(p, "name=")
		}
	}
	return ""
}

var (
	tInt  = reflect.TypeOf(math.Int{})
	tDec  = reflect.TypeOf(math.LegacyDec{})
	tCoin = reflect.TypeOf(sdk.Coin{})
)

// fill gives every field of a message a well-formed non-zero value.
func (c *Chain) fill(v reflect.Value, name string, depth int) {
	strFor := func(n string) string {
		n = strings.ToLower(n)
		switch {
		case strings.Contains(n, "address") || strings.Contains(n, "feeder") || n == "creator" || n == "sender" || strings.Contains(n, "whitelist") || n == "intent":
			return c.Addr["u2"].String() // the same account as the "user" sender class: records it names are the sender's own
		case strings.Contains(n, "denom") || strings.Contains(n, "asset"):
			return "uusdt"
		case strings.Contains(n, "identifier"):
			return "day"
		}
		return "x"
	}
	switch v.Kind() {
	case reflect.String:
		v.SetString(strFor(name))
	case reflect.Uint64, reflect.Uint32:
		n := strings.ToLower(name)
		switch {
		case strings.Contains(n, "decimal"):
			v.SetUint(6)
		case strings.Contains(n, "end"):
			v.SetUint(1000)
		default:
			v.SetUint(1)
		}
	case reflect.Int64, reflect.Int32:
		if v.Type().PkgPath() == "" {
			if strings.Contains(strings.ToLower(name), "end") {
				v.SetInt(1000)
			} else {
				v.SetInt(1)
			}
		}
	case reflect.Bool:
		v.SetBool(true)
	case reflect.Struct:
		switch v.Type() {
		case tInt:
			v.Set(reflect.ValueOf(math.NewInt(1)))
		case tDec:
			n := strings.ToLower(name)
			switch {
			case strings.Contains(n, "leverage"):
				v.Set(reflect.ValueOf(math.LegacyNewDec(2)))
			case strings.Contains(n, "fee"):
				v.Set(reflect.ValueOf(math.LegacyNewDecWithPrec(1, 2)))
			default:
				v.Set(reflect.ValueOf(math.LegacyNewDecWithPrec(5, 1)))
			}
		case tCoin:
			v.Set(reflect.ValueOf(sdk.NewInt64Coin("uusdc", 1)))
		default:
			if depth < 3 {
				for i := 0; i < v.NumField(); i++ {
					f := v.Type().Field(i)
					if f.PkgPath != "" || strings.HasPrefix(f.Name, "XXX_") {
						continue
					}
					c.fill(v.Field(i), protoName(f), depth+1)
				}
			}
		}
	case reflect.Ptr:
		if v.Type().Elem().Kind() == reflect.Struct && depth < 3 {
			nv := reflect.New(v.Type().Elem())
			c.fill(nv.Elem(), name, depth+1)
			v.Set(nv)
		}
	case reflect.Slice:
		et := v.Type().Elem()
		if et.Kind() == reflect.Uint8 {
			return
		}
		nv := reflect.New(et).Elem()
		c.fill(nv, name, depth+1)
		v.Set(reflect.Append(v, nv))
	}
}

// currentParams returns the module's current Params (so that a governance update with them is acceptable).
func (c *Chain) currentParams(url string, ctx sdk.Context) any {
	a := c.App
	switch strings.Split(url, ".")[1] {
	case "amm":
		return a.AmmKeeper.GetParams(ctx)
	case "burner":
		return a.BurnerKeeper.GetParams(ctx)
	case "estaking":
		return a.EstakingKeeper.GetParams(ctx)
	case "leveragelp":
		return a.LeveragelpKeeper.GetParams(ctx)
	case "masterchef":
		return a.MasterchefKeeper.GetParams(ctx)
	case "oracle":
		return a.OracleKeeper.GetParams(ctx)
	case "perpetual":
		return a.PerpetualKeeper.GetParams(ctx)
	case "stablestake":
		return a.StablestakeKeeper.GetParams(ctx)
	case "tradeshield":
		return a.TradeshieldKeeper.GetParams(ctx)
	}
	return nil
}

// buildMsg instantiates a message of the type with `who` in its signer field.
func (c *Chain) buildMsg(mt msgType, who string, ctx sdk.Context) (m sdk.Msg, err error) {
	defer func() {
		if r := recover(); r != nil {
			err = fmt.Errorf("cannot build %s: %v", mt.URL, r)
		}
	}()
	pm, err := c.App.InterfaceRegistry().Resolve(mt.URL)
	if err != nil {
		return nil, err
	}
	v := reflect.ValueOf(pm).Elem()
	for i := 0; i < v.NumField(); i++ {
		f := v.Type().Field(i)
		if f.PkgPath != "" || strings.HasPrefix(f.Name, "XXX_") {
			continue
		}
		pn := protoName(f)
		if pn == mt.Signer {
			v.Field(i).SetString(who)
			continue
		}
		if f.Name == "Params" {
			if cp := c.currentParams(mt.URL, ctx); cp != nil {
				pv := reflect.ValueOf(cp)
				switch {
				case pv.Type().AssignableTo(f.Type):
					v.Field(i).Set(pv)
					continue
				case pv.Kind() == reflect.Ptr && pv.Elem().Type().AssignableTo(f.Type):
					v.Field(i).Set(pv.Elem())
					continue
				case f.Type.Kind() == reflect.Ptr && pv.Type().AssignableTo(f.Type.Elem()):
					nv := reflect.New(f.Type.Elem())
					nv.Elem().Set(pv)
					v.Field(i).Set(nv)
					continue
				}
			}
		}
		c.fill(v.Field(i), pn, 0)
	}
	// asset-profile messages name the listing the "user" sender class created itself through the permissionless MsgAddEntry
	if c.OwnDenom != "" && strings.Contains(mt.URL, "assetprofile") {
		if f := v.FieldByName("BaseDenom"); f.IsValid() && f.Kind() == reflect.String {
			f.SetString(c.OwnDenom)
		}
	}
	return pm.(sdk.Msg), nil
}

func (c *Chain) storeDigest(ctx sdk.Context) string {
	h := sha256.New()
	keys := c.App.GetKVStoreKey()
	for _, name := range sortedKeys(keys) {
		it := ctx.KVStore(keys[name]).Iterator(nil, nil)
		for ; it.Valid(); it.Next() {
			h.Write(it.Key())
			h.Write([]byte{0})
			h.Write(it.Value())
			h.Write([]byte{1})
		}
		it.Close()
	}
	return fmt.Sprintf("%x", h.Sum(nil)[:12])
}

type authCase struct {
	Type   string `json:"type"`
	Sender string `json:"sender"` // gov | user | bot | module | empty
	Via    string `json:"via"`    // router | tx
}

func cmdAuthority(args []string) {
	fs := flag.NewFlagSet("authority", flag.ExitOnError)
	list := fs.String("list", "", "write the registered message types to this file and exit")
	casesFile := fs.String("cases", "", "ndjson of cases enumerated by TLC")
	out := fs.String("out", "", "trace file")
	seed := fs.Int64("seed", 1, "seed")
	fs.Parse(args)
	tmp, _ := os.MkdirTemp("", "elysauth")
	defer os.RemoveAll(tmp)
	gen := MakeGenesis(tmp)
	c := NewChain(gen, tmp, *seed, nil)
	c.NoObs = true
	c.SetupScene(sceneFor("positions"))
	d := NewDriver(c)
	prepScene(d, "positions")
	// records whose stored authority / owner is an ordinary account (as a genesis import can leave them): the non-governance
	// sender then is that very account
	actx := c.AdminCtx()
	c.App.TokenomicsKeeper.SetAirdrop(actx, tokenomicstypes.Airdrop{Intent: c.Addr["u2"].String(), Authority: c.Addr["u2"].String(), Amount: 1000, Expiry: uint64(actx.BlockTime().Unix()) + 1_000_000})
	// a record the "user" sender class created itself through a real permissionless message: an asset-profile listing
	if _, err := c.Admin(&aptypes.MsgAddEntry{Creator: c.Addr["u2"].String(), BaseDenom: "uverif", Denom: "uverif", Decimals: 6, DisplayName: "VERIF",
		DisplaySymbol: "VERIF", CommitEnabled: true, WithdrawEnabled: true}); err == nil {
		c.OwnDenom = "uverif"
	}
	types := c.elysMsgTypes()
	if *list != "" {
		bz, _ := json.Marshal(types)
		os.WriteFile(*list, bz, 0o644)
		fmt.Printf("STATS {\"types\":%d}\n", len(types))
		return
	}
	byURL := map[string]msgType{}
	for _, t := range types {
		byURL[t.URL] = t
	}
	f, err := os.Create(*out)
	if err != nil {
		panic(err)
	}
	defer f.Close()
	emit := func(kind string, ev *Event) {
		bz, _ := json.Marshal(map[string]any{"kind": kind, "ev": ev})
		f.Write(bz)
		f.Write([]byte("\n"))
	}
	// first line: what the running app registers (the completeness obligation of the trace)
	ev0 := newEvent("AuthTypes", "")
	tl := []any{}
	for _, t := range types {
		tl = append(tl, map[string]any{"type": t.URL, "class": t.Class, "signerField": t.Signer})
	}
	ev0.Args["types"] = tl
	emit("AuthTypes", ev0)

	who := map[string]string{"gov": c.gov(), "user": c.Addr["u2"].String(), "bot": c.Addr["bot"].String(),
		"module": authtypes.NewModuleAddress("masterchef").String(), "empty": ""}
	cf, err := os.Open(*casesFile)
	if err != nil {
		panic(err)
	}
	defer cf.Close()
	sc := bufio.NewScanner(cf)
	stats := map[string]int{}
	var cases []authCase
	for sc.Scan() {
		var cs authCase
		if json.Unmarshal(sc.Bytes(), &cs) != nil || cs.Type == "" {
			continue
		}
		cases = append(cases, cs)
	}
	rank := func(t string) int {
		switch {
		case strings.Contains(t, ".MsgCreate"):
			return 0
		case strings.Contains(t, ".MsgDelete") || strings.Contains(t, ".MsgRemove"):
			return 2
		}
		return 1
	}
	sort.SliceStable(cases, func(i, j int) bool {
		if rank(cases[i].Type) != rank(cases[j].Type) {
			return rank(cases[i].Type) < rank(cases[j].Type)
		}
		if cases[i].Type != cases[j].Type {
			return cases[i].Type < cases[j].Type
		}
		return cases[i].Sender+cases[i].Via < cases[j].Sender+cases[j].Via
	})
	for _, cs := range cases {
		mt, known := byURL[cs.Type]
		ev := newEvent(cs.Type, cs.Sender)
		ev.Args["class"], ev.Args["signerField"], ev.Args["via"], ev.Args["senderClass"] = mt.Class, mt.Signer, cs.Via, cs.Sender
		ev.Args["changed"], ev.Args["refusedAsUnauthorized"], ev.Args["built"] = false, false, known
		if !known {
			ev.OK = false
			ev.Log = "type not registered"
			emit("Auth", ev)
			continue
		}
		stats["cases"]++
		ctx := c.AdminCtx()
		msg, berr := c.buildMsg(mt, who[cs.Sender], ctx)
		if berr != nil {
			ev.OK, ev.Log = false, truncate(berr.Error(), 200)
			ev.Args["built"] = false
			emit("Auth", ev)
			continue
		}
		if cs.Via == "tx" {
			// a real signed transaction in a real block (only accounts with keys can sign)
			c.Queue(TxSpec{Signer: map[string]string{"user": "u2", "bot": "bot"}[cs.Sender], Msgs: []sdk.Msg{msg}, Fee: d.fee(), Ev: nil})
			outs := c.NextBlock(5)
			if c.Halted != "" || len(outs) != 1 {
				ev.OK, ev.Log = false, "block failed: "+truncate(c.Halted, 200)
				ev.Args["halted"] = true
			} else {
				ev.OK, ev.Log = outs[0].Code == 0, truncate(outs[0].Log, 200)
			}
		} else {
			cc, _ := ctx.CacheContext()
			d0 := c.storeDigest(cc)
			var herr error
			func() {
				defer func() {
					if r := recover(); r != nil {
						herr = fmt.Errorf("panic: %v", r)
					}
				}()
				h := c.App.MsgServiceRouter().Handler(msg)
				_, herr = h(cc, msg)
			}()
			ev.OK = herr == nil
			if herr != nil {
				ev.Log = truncate(herr.Error(), 200)
			}
			ev.Args["changed"] = c.storeDigest(cc) != d0
			if cs.Sender == "gov" && herr == nil && strings.Contains(cs.Type, ".MsgCreate") {
				// keep what governance created, so that the matching Update / Delete messages find their object
				c.Admin(msg)
			}
		}
		l := strings.ToLower(ev.Log)
		ev.Args["refusedAsUnauthorized"] = !ev.OK && (strings.Contains(l, "invalid authority") || strings.Contains(l, "unauthorized") || strings.Contains(l, "expected gov"))
		if ev.OK {
			stats["accepted_"+cs.Sender]++
		}
		emit("Auth", ev)
	}
	bz, _ := json.Marshal(stats)
	fmt.Println("STATS", string(bz))
}
