//go:build verif

package main

import (
	"hash/fnv"
	"bufio"
	"encoding/json"
	"flag"
	"fmt"
	"os"
	"path/filepath"
	"sync"
)

// elysdrv: conformance harness driving the real ElysApp.
//
//   elysdrv run   -schedules f.ndjson -out dir -seed S -workers N     replay schedules, one trace per worker
//   elysdrv gen   -family F -n N -seed S -out f.ndjson                 scenario/random schedule generators
func main() {
	if len(os.Args) < 2 {
		fmt.Println("usage: elysdrv run|gen|pure|authority|replicas ...")
		os.Exit(2)
	}
	switch os.Args[1] {
	case "run":
		cmdRun(os.Args[2:])
	case "gen":
		cmdGen(os.Args[2:])
	default:
		if f, ok := extraCmds[os.Args[1]]; ok {
			f(os.Args[2:])
			return
		}
		fmt.Println("unknown command", os.Args[1])
		os.Exit(2)
	}
}

var extraCmds = map[string]func([]string){}

func readSchedules(path string) []Schedule {
	f, err := os.Open(path)
	if err != nil {
		panic(err)
	}
	defer f.Close()
	var out []Schedule
	sc := bufio.NewScanner(f)
	sc.Buffer(make([]byte, 1<<20), 1<<26)
	for sc.Scan() {
		if len(sc.Bytes()) == 0 {
			continue
		}
		var s Schedule
		if err := json.Unmarshal(sc.Bytes(), &s); err != nil {
			panic(fmt.Sprintf("bad schedule line: %v: %s", err, sc.Text()))
		}
		out = append(out, s)
	}
	return out
}

func cmdRun(args []string) {
	fs := flag.NewFlagSet("run", flag.ExitOnError)
	schedFile := fs.String("schedules", "", "ndjson file of schedules")
	out := fs.String("out", "", "output directory for traces")
	seed := fs.Int64("seed", 1, "seed")
	workers := fs.Int("workers", 8, "parallel workers")
	fs.Parse(args)
	scheds := readSchedules(*schedFile)
	os.MkdirAll(*out, 0o755)
	tmp, _ := os.MkdirTemp("", "elysdrv")
	defer os.RemoveAll(tmp)
	gen := MakeGenesis(tmp)
	var wg sync.WaitGroup
	var mu sync.Mutex
	stats := map[string]int{}
	for w := 0; w < *workers; w++ {
		wg.Add(1)
		go func(w int) {
			defer wg.Done()
			rec := NewRecorder(filepath.Join(*out, fmt.Sprintf("trace-%02d.ndjson", w)))
			defer rec.Close()
			for i := w; i < len(scheds); i += *workers { // static assignment: trace files are a function of the inputs
				s := scheds[i]
				st := RunSchedule(gen, tmp, scheduleSeed(*seed, s.ID), rec, s)
				mu.Lock()
				for k, v := range st {
					stats[k] += v
				}
				mu.Unlock()
			}
		}(w)
	}
	wg.Wait()
	bz, _ := json.Marshal(stats)
	fmt.Println("STATS", string(bz))
}

// scheduleSeed: the amounts drawn for a schedule are a function of the run's seed and the schedule's identity (not of its
// position in the batch), so that a schedule replayed alone draws exactly the amounts it drew in the batch that found it.
func scheduleSeed(seed int64, id string) int64 {
	h := fnv.New64a()
	h.Write([]byte(id))
	return seed*1000003 + int64(h.Sum64()>>1)
}

// RunSchedule executes one schedule on a fresh chain, recording into rec.
func RunSchedule(gen *Genesis, tmp string, seed int64, rec *Recorder, s Schedule) (stats map[string]int) {
	stats = map[string]int{"schedules": 1}
	defer func() {
		if r := recover(); r != nil {
			fmt.Fprintf(os.Stderr, "DRIVER-PANIC schedule=%s: %v\n%s\n", s.ID, r, shortStackAll())
			stats["driver_panics"]++
		}
	}()
	c := NewChain(gen, tmp, seed, rec)
	c.SetupScene(sceneFor(s.Scene))
	d := NewDriver(c)
	prepScene(d, s.Scene)
	rec.Reset(s.ID, c.Project(c.ReadCtx()))
	if c.Halted != "" { // block processing already failed while the scene was being set up (unrecorded blocks): that is a halt too
		c.emitHalt(nil)
		stats["halted_in_setup"]++
	}
	for _, st := range s.Steps {
		if c.Halted != "" {
			break
		}
		if d.Apply(st) {
			stats["steps"]++
		} else {
			stats["skipped"]++
		}
	}
	if len(c.pending) > 0 && c.Halted == "" {
		c.NextBlock(d.Dt)
	}
	stats["blocks"] += int(c.Height)
	if c.Halted != "" {
		stats["halted"]++
	}
	return stats
}
