//go:build verif

package main

import (
	distrtypes "github.com/cosmos/cosmos-sdk/x/distribution/types"
	"fmt"
	"strconv"
	"strings"

	"cosmossdk.io/math"
	sdk "github.com/cosmos/cosmos-sdk/types"
	vestingtypes "github.com/cosmos/cosmos-sdk/x/auth/vesting/types"
	banktypes "github.com/cosmos/cosmos-sdk/x/bank/types"

	ammtypes "github.com/elys-network/elys/x/amm/types"
	committypes "github.com/elys-network/elys/x/commitment/types"
	leveragelptypes "github.com/elys-network/elys/x/leveragelp/types"
	mctypes "github.com/elys-network/elys/x/masterchef/types"
	oracletypes "github.com/elys-network/elys/x/oracle/types"
	perpetualtypes "github.com/elys-network/elys/x/perpetual/types"
	stablestaketypes "github.com/elys-network/elys/x/stablestake/types"
	tstypes "github.com/elys-network/elys/x/tradeshield/types"
	estakingtypes "github.com/elys-network/elys/x/estaking/types"
	tiertypes "github.com/elys-network/elys/x/tier/types"
)

// Step is one abstract action of a schedule (produced by the TLC models or by the
// scenario generators); the driver maps it to a real message, choosing concrete
// amounts from the live state according to the size class.
type Step map[string]any

func (s Step) S(k string) string {
	if v, ok := s[k]; ok {
		switch x := v.(type) {
		case string:
			return x
		case float64:
			return strconv.FormatInt(int64(x), 10)
		case bool:
			if x {
				return "true"
			}
			return "false"
		}
	}
	return ""
}
func (s Step) I(k string) int64 {
	if v, ok := s[k]; ok {
		switch x := v.(type) {
		case float64:
			return int64(x)
		case string:
			n, _ := strconv.ParseInt(x, 10, 64)
			return n
		}
	}
	return 0
}
func (s Step) Has(k string) bool { _, ok := s[k]; return ok }

type Schedule struct {
	ID    string `json:"id"`
	Scene string `json:"scene"`
	Steps []Step `json:"steps"`
}

// Driver interprets schedules on one Chain.
type Driver struct {
	C        *Chain
	FeeDenom string
	FeeAmt   int64
	Prices   map[string]math.LegacyDec // last fed price per display name
	Dt       int64
	collect  *[]TxSpec // non-nil: queue() collects instead of queuing (composite transactions)
}

func NewDriver(c *Chain) *Driver {
	d := &Driver{C: c, FeeDenom: "uusdc", FeeAmt: 2000, Prices: map[string]math.LegacyDec{}, Dt: 5}
	for _, as := range sceneAssets {
		d.Prices[as.Display] = math.LegacyMustNewDecFromStr(as.Price)
	}
	return d
}

func (d *Driver) fee() sdk.Coins {
	if d.FeeAmt == 0 || d.FeeDenom == "" {
		return sdk.Coins{}
	}
	return sdk.NewCoins(sdk.NewInt64Coin(d.FeeDenom, d.FeeAmt))
}

// size class -> amount relative to a base quantity
func (d *Driver) size(class string, base math.Int) math.Int {
	if base.IsNil() || !base.IsPositive() {
		base = math.NewInt(1)
	}
	jit := func(x math.Int) math.Int { // +-10 % deterministic jitter
		j := int64(900 + d.C.Rand.Intn(201))
		r := x.MulRaw(j).QuoRaw(1000)
		if !r.IsPositive() {
			return math.NewInt(1)
		}
		return r
	}
	switch class {
	case "one":
		return math.NewInt(1)
	case "dust":
		return math.NewInt(int64(1 + d.C.Rand.Intn(9)))
	case "s1":
		return jit(base.QuoRaw(1_000_000))
	case "s2":
		return jit(base.QuoRaw(100))
	case "s3":
		return jit(base.MulRaw(3).QuoRaw(10))
	case "s4":
		return base.MulRaw(999).QuoRaw(1000)
	case "big":
		return jit(base.MulRaw(9).QuoRaw(10))
	case "20%":
		return jit(base.MulRaw(2).QuoRaw(10))
	case "x2":
		return jit(base.MulRaw(2))
	case "all":
		return base
	case "over":
		return base.MulRaw(2).AddRaw(1)
	}
	if n, ok := math.NewIntFromString(class); ok {
		return n
	}
	return jit(base.QuoRaw(100))
}

func frac(class string, total math.Int, rnd func(int) int) math.Int {
	switch class {
	case "one":
		return math.NewInt(1)
	case "third":
		return total.QuoRaw(3)
	case "half":
		return total.QuoRaw(2)
	case "most":
		return total.MulRaw(9).QuoRaw(10)
	case "80%":
		return total.MulRaw(8).QuoRaw(10)
	case "65%":
		return total.MulRaw(65).QuoRaw(100)
	case "73%":
		return total.MulRaw(73).QuoRaw(100)
	case "allbut1":
		return total.SubRaw(1)
	case "all":
		return total
	case "over":
		return total.AddRaw(1)
	case "twice": // an over-ask by a wide margin (nothing when there is nothing)
		return total.MulRaw(2)
	case "tiny":
		return total.QuoRaw(1_000_000)
	}
	if n, ok := math.NewIntFromString(class); ok {
		return n
	}
	return total.QuoRaw(2)
}

func (d *Driver) addr(n string) string {
	if a, ok := d.C.Addr[n]; ok {
		return a.String()
	}
	for bech, name := range d.C.Names {
		if name == n {
			return bech
		}
	}
	return n
}

func (d *Driver) pool(ctx sdk.Context, id uint64) (ammtypes.Pool, bool) {
	return d.C.App.AmmKeeper.GetPool(ctx, id)
}

func reserve(p ammtypes.Pool, denom string) math.Int {
	for _, a := range p.PoolAssets {
		if a.Token.Denom == denom {
			return a.Token.Amount
		}
	}
	return math.ZeroInt()
}

func otherDenom(p ammtypes.Pool, denom string) string {
	for _, a := range p.PoolAssets {
		if a.Token.Denom != denom {
			return a.Token.Denom
		}
	}
	return denom
}

func (d *Driver) queue(signer string, ev *Event, msgs ...sdk.Msg) {
	if d.collect != nil {
		*d.collect = append(*d.collect, TxSpec{Signer: signer, Msgs: msgs, Fee: d.fee(), Ev: ev})
		return
	}
	d.C.Queue(TxSpec{Signer: signer, Msgs: msgs, Fee: d.fee(), Ev: ev})
}

// rolledBack turns a step into ONE transaction that is certain to fail after its messages ran: the step's message(s)
// (`times` copies: the second copy reads what the first wrote) followed by a bank send of a coin the signer does not hold.
// BaseApp discards the transaction's whole branch, so whatever the messages did - store writes, hooks, transient entries -
// must leave no trace (C18: "a user transaction that hits a state problem fails alone and is rolled back"; C19: nothing a
// discarded branch did may survive in process memory).  The event is named multi.rolledback: no per-message contract
// applies to it, only the generic ones (a failed transaction changes nothing but the fee).
func (d *Driver) rolledBack(inner Step, times int) bool {
	var got []TxSpec
	d.collect = &got
	func() {
		defer func() { d.collect = nil }()
		d.Apply(inner)
	}()
	if len(got) != 1 || len(got[0].Msgs) == 0 {
		for _, t := range got { // anything else the step queued goes out unchanged
			d.C.Queue(t)
		}
		return len(got) > 0
	}
	t := got[0]
	var msgs []sdk.Msg
	for i := 0; i < times; i++ {
		msgs = append(msgs, t.Msgs...)
	}
	msgs = append(msgs, &banktypes.MsgSend{FromAddress: d.addr(t.Signer), ToAddress: d.addr("bot"), Amount: sdk.NewCoins(sdk.NewInt64Coin("uvoid", 1))})
	ev := newEvent("multi.rolledback", t.Signer)
	ev.Args["inner"], ev.Args["times"] = t.Ev.Name, times
	d.C.Queue(TxSpec{Signer: t.Signer, Msgs: msgs, Fee: t.Fee, Ev: ev})
	return true
}

func posReqs(d *Driver, v any) (out []any) {
	arr, _ := v.([]any)
	for _, x := range arr {
		out = append(out, x)
	}
	return
}

// Apply executes one step.  It returns false when the step could not even be turned
// into a transaction (e.g. names a pool that does not exist) — the step is skipped.
func (d *Driver) Apply(s Step) bool {
	c := d.C
	ctx := c.ReadCtx()
	a := c.App
	user := s.S("u")
	switch s.S("a") {
	case "poison", "twin": // the inner step as a transaction that is rolled back after its message(s) ran (twin: message twice)
		inner, _ := s["inner"].(map[string]any)
		if inner == nil {
			return false
		}
		n := 1
		if s.S("a") == "twin" {
			n = 2
		}
		return d.rolledBack(Step(inner), n)

	case "multi": // several steps of ONE signer as one transaction; if it succeeds every message is judged by its own contract
		// (observed between the messages), if any message fails the whole transaction is rolled back
		inners, _ := s["inner"].([]any)
		var got []TxSpec
		d.collect = &got
		func() {
			defer func() { d.collect = nil }()
			for _, in := range inners {
				if m, ok := in.(map[string]any); ok {
					d.Apply(Step(m))
				}
			}
		}()
		same := len(got) >= 2
		for _, t := range got {
			if t.Signer != got[0].Signer || len(t.Msgs) != 1 {
				same = false
			}
		}
		if !same { // different signers (or nothing to combine): ordinary transactions
			for _, t := range got {
				d.C.Queue(t)
			}
			return len(got) > 0
		}
		tx := TxSpec{Signer: got[0].Signer, Fee: got[0].Fee, Ev: newEvent("multi.rolledback", got[0].Signer)}
		var names []any
		for _, t := range got {
			tx.Msgs = append(tx.Msgs, t.Msgs[0])
			tx.Evs = append(tx.Evs, t.Ev)
			names = append(names, t.Ev.Name)
		}
		tx.Ev.Args["inner"], tx.Ev.Args["times"] = names, 1
		d.C.Queue(tx)
		return true

	case "swapByDenom": // the amm front end that finds the route itself (exact-in form); queues a request like the explicit messages
		amt := d.size(s.S("sz"), math.NewInt(1_000_000_000_000))
		if n, ok := math.NewIntFromString(s.S("sz")); ok {
			amt = n
		}
		rcpt := s.S("rcpt")
		if rcpt == "" {
			rcpt = user
		}
		ev := newEvent("amm.MsgSwapByDenom", user)
		ev.Args["din"], ev.Args["dout"], ev.Args["ain"], ev.Args["rcpt"] = s.S("din"), s.S("dout"), amt.String(), rcpt
		d.queue(user, ev, &ammtypes.MsgSwapByDenom{Sender: d.addr(user), Amount: sdk.NewCoin(s.S("din"), amt), MinAmount: sdk.NewCoin(s.S("dout"), math.OneInt()),
			DenomIn: s.S("din"), DenomOut: s.S("dout"), Recipient: d.addr(rcpt)})
		return true

	case "createAssetInfo": // the permissionless oracle listing of a denom
		ev := newEvent("oracle.MsgCreateAssetInfo", user)
		ev.Args["denom"] = s.S("d")
		d.queue(user, ev, &oracletypes.MsgCreateAssetInfo{Creator: d.addr(user), Denom: s.S("d"), Display: s.S("display"),
			BandTicker: s.S("display"), ElysTicker: s.S("display"), Decimal: 6})
		return true

	case "block":
		dt := s.I("dt")
		if dt == 0 {
			dt = d.Dt
		}
		n := s.I("n")
		if n == 0 {
			n = 1
		}
		for i := int64(0); i < n; i++ {
			c.NextBlock(dt)
		}
		return true

	case "blockAtByte": // close the block at the next time whose byte `idx` (0 = lowest) equals the key separator '/' (0x2F)
		idx := uint(s.I("idx"))
		now := c.Time.Unix()
		dt := int64(1)
		for ; dt < 1<<25; dt++ {
			if ((now+dt)>>(8*idx))&0xFF == 0x2F {
				break
			}
		}
		c.NextBlock(dt)
		return true

	case "fee":
		d.FeeDenom = s.S("d")
		if s.Has("amt") {
			d.FeeAmt = s.I("amt")
		}
		return true

	case "feed": // feeder publishes a price: absolute ("px") or relative ("mul") to the last fed one
		asset := s.S("asset")
		px := d.Prices[asset]
		if s.Has("px") {
			px = math.LegacyMustNewDecFromStr(s.S("px"))
		} else if s.Has("mul") {
			if px.IsNil() {
				px = math.LegacyOneDec()
			}
			px = px.Mul(math.LegacyMustNewDecFromStr(s.S("mul")))
		}
		d.Prices[asset] = px
		src := s.S("src")
		if src == "" {
			src = "elys"
		}
		who := user
		if who == "" {
			who = "feeder"
		}
		ev := newEvent("oracle.MsgFeedPrice", who)
		ev.Args["asset"] = asset
		ev.Args["source"] = src
		ev.Args["price"] = ds(px)
		ev.Args["feeds"] = []any{map[string]any{"asset": asset, "source": src, "price": ds(px)}}
		d.queue(who, ev, &oracletypes.MsgFeedPrice{Provider: d.addr(who), FeedPrice: oracletypes.FeedPrice{Asset: asset, Price: px, Source: src}})
		return true

	case "feedMulti": // one message carrying several (asset, source, price) triples: "feeds": [[asset, source, px], ...]
		who := user
		if who == "" {
			who = "feeder"
		}
		var fps []oracletypes.FeedPrice
		feeds := []any{}
		arr, _ := s["feeds"].([]any)
		for _, x := range arr {
			t := x.([]any)
			px := math.LegacyMustNewDecFromStr(t[2].(string))
			fps = append(fps, oracletypes.FeedPrice{Asset: t[0].(string), Source: t[1].(string), Price: px})
			feeds = append(feeds, map[string]any{"asset": t[0].(string), "source": t[1].(string), "price": ds(px)})
			if t[1].(string) == "elys" {
				d.Prices[t[0].(string)] = px
			}
		}
		ev := newEvent("oracle.MsgFeedMultiplePrices", who)
		ev.Args["feeds"] = feeds
		d.queue(who, ev, &oracletypes.MsgFeedMultiplePrices{Creator: d.addr(who), FeedPrices: fps})
		return true

	case "setFeeder": // the feeder (de)activates itself
		ev := newEvent("oracle.MsgSetPriceFeeder", user)
		ev.Args["active"] = s.S("active") == "true"
		d.queue(user, ev, &oracletypes.MsgSetPriceFeeder{Feeder: d.addr(user), IsActive: s.S("active") == "true"})
		return true

	case "delFeeder":
		ev := newEvent("oracle.MsgDeletePriceFeeder", user)
		d.queue(user, ev, &oracletypes.MsgDeletePriceFeeder{Feeder: d.addr(user)})
		return true

	case "govAddFeeder", "govRemoveFeeder": // governance authority, applied between blocks through the real router
		var msg sdk.Msg
		name := "oracle.MsgAddPriceFeeders"
		if s.S("a") == "govAddFeeder" {
			msg = &oracletypes.MsgAddPriceFeeders{Authority: c.gov(), Feeders: []string{d.addr(user)}}
		} else {
			msg, name = &oracletypes.MsgRemovePriceFeeders{Authority: c.gov(), Feeders: []string{d.addr(user)}}, "oracle.MsgRemovePriceFeeders"
		}
		ev := newEvent(name, "gov")
		ev.Args["feeder"] = user
		c.AdminEv(ev, msg)
		return true

	case "govRewardDenom": // governance whitelists an external reward denom (MsgAddExternalRewardDenom)
		min, _ := math.NewIntFromString(s.S("min"))
		if min.IsNil() {
			min = math.OneInt()
		}
		ev := newEvent("masterchef.MsgAddExternalRewardDenom", "gov")
		ev.Args["denom"] = s.S("d")
		c.AdminEv(ev, &mctypes.MsgAddExternalRewardDenom{Authority: c.gov(), RewardDenom: s.S("d"), MinAmount: min, Supported: true})
		return true

	case "govToggleEden": // governance switches Eden rewards of a pool on / off
		ev := newEvent("masterchef.MsgTogglePoolEdenRewards", "gov")
		ev.Args["pool"] = u(uint64(s.I("p")))
		c.AdminEv(ev, &mctypes.MsgTogglePoolEdenRewards{Authority: c.gov(), PoolId: uint64(s.I("p")), Enable: s.S("on") != "false"})
		return true

	case "govParamIndex": // the i-th numeric leaf of the modules' params (enumerated from the running app) set to an extreme
		if paramLeaves == nil {
			paramLeaves = c.enumerateParamLeaves()
		}
		if len(paramLeaves) == 0 {
			return false
		}
		lf := paramLeaves[int(s.I("i"))%len(paramLeaves)]
		return d.GovParam(lf.Module, lf.Path, s.S("value"))

	case "govParam":
		return d.GovParam(s.S("module"), s.S("field"), s.S("value"))

	case "govDistrTax": // governance sets the community tax of the (wrapped) SDK distribution module; 0 is a permitted value
		ctx := c.AdminCtx()
		dp, err := a.DistrKeeper.Params.Get(ctx)
		if err != nil {
			return false
		}
		dp.CommunityTax = math.LegacyMustNewDecFromStr(s.S("value"))
		ev := newEvent("distribution.MsgUpdateParams", "gov")
		ev.Args["field"], ev.Args["value"] = "CommunityTax", s.S("value")
		c.AdminEv(ev, &distrtypes.MsgUpdateParams{Authority: c.gov(), Params: dp})
		return true

	case "govVestInfo": // governance: MsgUpdateVestingInfo for ueden
		msg := &committypes.MsgUpdateVestingInfo{Authority: c.gov(), BaseDenom: "ueden", VestingDenom: "uelys", NumBlocks: s.I("num"),
			VestNowFactor: 90, NumMaxVestings: s.I("max")}
		ev := newEvent("commitment.MsgUpdateVestingInfo", "gov")
		ev.Args["num"], ev.Args["max"] = s.I("num"), s.I("max")
		c.AdminEv(ev, msg)
		return true

	case "feedAll": // refresh every known price (keeps them alive under short lifetimes)
		var fps []oracletypes.FeedPrice
		for _, as := range sortedKeys(d.Prices) {
			fps = append(fps, oracletypes.FeedPrice{Asset: as, Price: d.Prices[as], Source: "elys"})
		}
		ev := newEvent("oracle.MsgFeedMultiplePrices", "feeder")
		feeds := []any{}
		for _, fp := range fps {
			feeds = append(feeds, map[string]any{"asset": fp.Asset, "source": fp.Source, "price": ds(fp.Price)})
		}
		ev.Args["feeds"] = feeds
		d.queue("feeder", ev, &oracletypes.MsgFeedMultiplePrices{Creator: d.addr("feeder"), FeedPrices: fps})
		return true

	case "createPool":
		d1, d2 := s.S("d1"), s.S("d2")
		a1, _ := math.NewIntFromString(s.S("a1"))
		a2, _ := math.NewIntFromString(s.S("a2"))
		w1, w2 := s.I("w1"), s.I("w2")
		if w1 == 0 {
			w1, w2 = 1, 1
		}
		fee := s.S("fee")
		if fee == "" {
			fee = "0"
		}
		msg := c.CreatePoolMsg(s.S("kind") == "oracle", fee, d1, d2, a1, a2, w1, w2)
		if s.Has("feeDenom") {
			msg.PoolParams.FeeDenom = s.S("feeDenom")
		}
		ev := newEvent("amm.MsgCreatePool", "u1")
		ev.Args["oracle"] = msg.PoolParams.UseOracle
		d.queue("u1", ev, msg)
		return true

	case "enableLev": // governance: leveragelp.AddPool (also creates the perpetual pool and the accounted pool)
		var err error
		if c.Rec != nil { // inside a recorded schedule: an Admin observation like every other governance step
			ev := newEvent("leveragelp.MsgAddPool", "gov")
			ev.Args["pool"] = u(uint64(s.I("p")))
			err = c.AdminEv(ev, &leveragelptypes.MsgAddPool{Authority: c.gov(),
				Pool: leveragelptypes.AddPool{AmmPoolId: uint64(s.I("p")), LeverageMax: math.LegacyNewDec(10)}})
		} else {
			err = c.EnableLeverage(uint64(s.I("p")))
		}
		if err != nil {
			fmt.Println("enableLev:", err)
		}
		return err == nil

	case "join":
		p, ok := d.pool(ctx, uint64(s.I("p")))
		if !ok {
			return false
		}
		ev := newEvent("amm.MsgJoinPool", user)
		ev.Args["pool"] = u(p.PoolId)
		var maxIn sdk.Coins
		shareOut := math.ZeroInt()
		if s.S("mode") == "dup" {
			// the same denom listed twice in MaxAmountsIn (each coin is valid, the coin SET is not sorted / unique)
			den := s.S("d")
			if den == "" {
				den = p.PoolAssets[0].Token.Denom
			}
			amt := d.size(s.S("sz"), reserve(p, den))
			maxIn = sdk.Coins{sdk.NewCoin(den, amt.QuoRaw(2).AddRaw(1)), sdk.NewCoin(den, amt)}
			ev.Args["mode"] = "single" // economically a single-denom deposit
		} else if s.S("mode") == "single" {
			den := s.S("d")
			if den == "" {
				den = p.PoolAssets[0].Token.Denom
			}
			amt := d.size(s.S("sz"), reserve(p, den))
			maxIn = sdk.NewCoins(sdk.NewCoin(den, amt))
			ev.Args["mode"] = "single"
		} else {
			// all-asset join: ask for a share amount, offer generous maxima
			shareOut = d.size(s.S("sz"), p.TotalShares.Amount)
			for _, pa := range p.PoolAssets {
				need := pa.Token.Amount.Mul(shareOut).Quo(p.TotalShares.Amount).MulRaw(12).QuoRaw(10).AddRaw(10)
				maxIn = maxIn.Add(sdk.NewCoin(pa.Token.Denom, need))
			}
			ev.Args["mode"] = "all"
		}
		if s.S("mode") == "dup" {
			ev.Args["maxIn"] = map[string]string{maxIn[1].Denom: maxIn[1].Amount.String()}
		} else {
			ev.Args["maxIn"] = coinsMap(maxIn)
		}
		ev.Args["shareOut"] = shareOut.String()
		d.queue(user, ev, &ammtypes.MsgJoinPool{Sender: d.addr(user), PoolId: p.PoolId, MaxAmountsIn: maxIn, ShareAmountOut: shareOut})
		return true

	case "exit":
		p, ok := d.pool(ctx, uint64(s.I("p")))
		if !ok {
			return false
		}
		cm := a.CommitmentKeeper.GetCommitments(ctx, c.Addr[user])
		have := cm.GetCommittedAmountForDenom(p.TotalShares.Denom)
		base := have
		if s.S("of") == "pool" {
			base = p.TotalShares.Amount
		}
		amt := frac(s.S("frac"), base, c.Rand.Intn)
		if !amt.IsPositive() {
			amt = math.NewInt(1)
		}
		ev := newEvent("amm.MsgExitPool", user)
		ev.Args["pool"] = u(p.PoolId)
		ev.Args["shareIn"] = amt.String()
		ev.Args["denomOut"] = s.S("d")
		d.queue(user, ev, &ammtypes.MsgExitPool{Sender: d.addr(user), PoolId: p.PoolId, MinAmountsOut: sdk.Coins{}, ShareAmountIn: amt, TokenOutDenom: s.S("d")})
		return true

	case "swapIn", "swapOut":
		// route: list of pool ids; din = first input denom
		var pids []uint64
		if r, ok := s["route"].([]any); ok {
			for _, x := range r {
				pids = append(pids, uint64(x.(float64)))
			}
		} else {
			pids = []uint64{uint64(s.I("p"))}
		}
		din := s.S("din")
		rcpt := s.S("rcpt")
		if rcpt == "" {
			rcpt = user
		}
		first, ok := d.pool(ctx, pids[0])
		if !ok {
			return false
		}
		if din == "" {
			din = first.PoolAssets[0].Token.Denom
		}
		// walk the route to find the denoms
		denoms := []string{din}
		cur := din
		var pools []ammtypes.Pool
		for _, pid := range pids {
			p, ok := d.pool(ctx, pid)
			if !ok {
				return false
			}
			pools = append(pools, p)
			cur = otherDenom(p, cur)
			denoms = append(denoms, cur)
		}
		dout := denoms[len(denoms)-1]
		if s.S("a") == "swapIn" {
			amt := d.size(s.S("sz"), reserve(first, din))
			tokenIn := sdk.NewCoin(din, amt)
			var routes []ammtypes.SwapAmountInRoute
			for i, pid := range pids {
				routes = append(routes, ammtypes.SwapAmountInRoute{PoolId: pid, TokenOutDenom: denoms[i+1]})
			}
			minOut := math.OneInt()
			est := d.estimateOut(ctx, routes, tokenIn)
			switch s.S("limit") {
			case "tight":
				if est.IsPositive() {
					minOut = est
				}
			case "impossible":
				minOut = est.MulRaw(2).AddRaw(1000)
			case "plus01", "plus03", "plus1", "plus3": // a little more than the pool itself is estimated to pay (a bonus may or may not cover it)
				k := map[string]int64{"plus01": 1, "plus03": 3, "plus1": 10, "plus3": 30}[s.S("limit")]
				if est.IsPositive() {
					minOut = est.Add(est.MulRaw(k).QuoRaw(1000)).AddRaw(1)
				}
			}
			ev := newEvent("amm.MsgSwapExactAmountIn", user)
			ev.Args["din"], ev.Args["ain"], ev.Args["dout"], ev.Args["minOut"], ev.Args["rcpt"] = din, amt.String(), dout, minOut.String(), rcpt
			ev.Args["hops"] = len(pids)
			ev.Args["pool"] = u(pids[0])
			ev.Args["route"], ev.Args["denoms"] = routeStrs(pids), strs(denoms)
			d.queue(user, ev, &ammtypes.MsgSwapExactAmountIn{Sender: d.addr(user), Routes: routes, TokenIn: tokenIn, TokenOutMinAmount: minOut, Recipient: d.addr(rcpt)})
		} else {
			last := pools[len(pools)-1]
			amt := d.size(s.S("sz"), reserve(last, dout))
			tokenOut := sdk.NewCoin(dout, amt)
			var routes []ammtypes.SwapAmountOutRoute
			for i, pid := range pids {
				routes = append(routes, ammtypes.SwapAmountOutRoute{PoolId: pid, TokenInDenom: denoms[i]})
			}
			est := d.estimateIn(ctx, routes, tokenOut)
			maxIn := est.MulRaw(2).AddRaw(1000)
			switch s.S("limit") {
			case "tight":
				maxIn = est
			case "impossible":
				maxIn = est.QuoRaw(2)
			}
			if !maxIn.IsPositive() {
				maxIn = math.OneInt()
			}
			ev := newEvent("amm.MsgSwapExactAmountOut", user)
			ev.Args["din"], ev.Args["aout"], ev.Args["dout"], ev.Args["maxIn"], ev.Args["rcpt"] = din, amt.String(), dout, maxIn.String(), rcpt
			ev.Args["hops"] = len(pids)
			ev.Args["pool"] = u(pids[0])
			ev.Args["route"], ev.Args["denoms"] = routeStrs(pids), strs(denoms)
			d.queue(user, ev, &ammtypes.MsgSwapExactAmountOut{Sender: d.addr(user), Routes: routes, TokenOut: tokenOut, TokenInMaxAmount: maxIn, Recipient: d.addr(rcpt)})
		}
		return true

	case "lockAccount": // anybody may create a permanently locked vesting account at an address that has no account yet
		amt, _ := math.NewIntFromString(s.S("amt"))
		ev := newEvent("vesting.MsgCreatePermanentLockedAccount", user)
		ev.Args["to"], ev.Args["denom"], ev.Args["amt"] = s.S("to"), s.S("d"), amt.String()
		d.queue(user, ev, &vestingtypes.MsgCreatePermanentLockedAccount{FromAddress: d.addr(user), ToAddress: d.addr(s.S("to")), Amount: sdk.NewCoins(sdk.NewCoin(s.S("d"), amt))})
		return true

	case "send": // bank send (a "donation" when the target is a protocol address)
		den := s.S("d")
		bal := a.BankKeeper.GetBalance(ctx, c.Addr[user], den).Amount
		amt := d.size(s.S("sz"), bal.QuoRaw(100))
		ev := newEvent("bank.MsgSend", user)
		ev.Args["to"], ev.Args["denom"], ev.Args["amt"] = s.S("to"), den, amt.String()
		d.queue(user, ev, &banktypes.MsgSend{FromAddress: d.addr(user), ToAddress: d.addr(s.S("to")), Amount: sdk.NewCoins(sdk.NewCoin(den, amt))})
		return true

	case "bond":
		sp := a.StablestakeKeeper.GetParams(ctx)
		base := sp.TotalValue
		if !base.IsPositive() {
			base = math.NewInt(1_000_000_000_000)
		}
		amt := d.size(s.S("sz"), base)
		ev := newEvent("stablestake.MsgBond", user)
		ev.Args["amt"] = amt.String()
		d.queue(user, ev, &stablestaketypes.MsgBond{Creator: d.addr(user), Amount: amt})
		return true

	case "unbond":
		cm := a.CommitmentKeeper.GetCommitments(ctx, c.Addr[user])
		have := cm.GetCommittedAmountForDenom(stablestaketypes.GetShareDenom())
		amt := frac(s.S("frac"), have, c.Rand.Intn)
		if !amt.IsPositive() {
			amt = math.OneInt()
		}
		ev := newEvent("stablestake.MsgUnbond", user)
		ev.Args["shares"] = amt.String()
		d.queue(user, ev, &stablestaketypes.MsgUnbond{Creator: d.addr(user), Amount: amt})
		return true

	case "levOpen":
		p, ok := d.pool(ctx, uint64(s.I("p")))
		if !ok {
			return false
		}
		amt := d.size(s.S("sz"), reserve(p, "uusdc"))
		lev := s.S("lev")
		if lev == "" {
			lev = "2"
		}
		sl := math.LegacyZeroDec()
		if s.Has("sl") {
			sl = math.LegacyMustNewDecFromStr(s.S("sl"))
		}
		if s.Has("slMul") { // relative to the LP token price the stop-loss check compares with
			if lpp, err := probeLpPrice(c, ctx, p); err == nil {
				sl = lpp.Mul(math.LegacyMustNewDecFromStr(s.S("slMul")))
			}
		}
		ev := newEvent("leveragelp.MsgOpen", user)
		ev.Args["pool"], ev.Args["collateral"], ev.Args["leverage"] = u(p.PoolId), amt.String(), ds(math.LegacyMustNewDecFromStr(lev))
		d.queue(user, ev, &leveragelptypes.MsgOpen{Creator: d.addr(user), CollateralAsset: "uusdc", CollateralAmount: amt, AmmPoolId: p.PoolId,
			Leverage: math.LegacyMustNewDecFromStr(lev), StopLossPrice: sl})
		return true

	case "levClose":
		id := uint64(s.I("id"))
		owner := s.S("owner")
		if owner == "" {
			owner = user
		}
		pos, err := a.LeveragelpKeeper.GetPosition(ctx, c.Addr[owner], id)
		if err != nil && !s.Has("exact") {
			// the abstract id names no position: use one of the owner's existing positions, if any
			var mine []uint64
			for _, p := range a.LeveragelpKeeper.GetAllPositions(ctx) {
				if p.Address == d.addr(owner) {
					mine = append(mine, p.Id)
				}
			}
			if len(mine) > 0 {
				id = mine[c.Rand.Intn(len(mine))]
				pos, err = a.LeveragelpKeeper.GetPosition(ctx, c.Addr[owner], id)
			}
		}
		lpAmt := math.OneInt()
		if err == nil {
			lpAmt = frac(s.S("frac"), pos.LeveragedLpAmount, c.Rand.Intn)
		}
		ev := newEvent("leveragelp.MsgClose", user)
		ev.Args["id"], ev.Args["lp"], ev.Args["owner"] = u(id), lpAmt.String(), owner
		d.queue(user, ev, &leveragelptypes.MsgClose{Creator: d.addr(owner), Id: id, LpAmount: lpAmt})
		if user != owner {
			// a different signer cannot sign for the owner: the tx is built with the signer's own address
			c.pending[len(c.pending)-1].Msgs = []sdk.Msg{&leveragelptypes.MsgClose{Creator: d.addr(user), Id: id, LpAmount: lpAmt}}
		}
		return true

	case "levClosePositions":
		if !s.Has("exact") {
			s = Step{"a": s["a"], "u": s["u"], "liq": d.resolveReqs(ctx, s["liq"], false), "sl": d.resolveReqs(ctx, s["sl"], false)}
		}
		user = s.S("u")
		var liq, sl []*leveragelptypes.PositionRequest
		for _, x := range posReqs(d, s["liq"]) {
			pr := x.([]any)
			liq = append(liq, &leveragelptypes.PositionRequest{Address: d.addr(pr[0].(string)), Id: uint64(numOf(pr[1]))})
		}
		for _, x := range posReqs(d, s["sl"]) {
			pr := x.([]any)
			sl = append(sl, &leveragelptypes.PositionRequest{Address: d.addr(pr[0].(string)), Id: uint64(numOf(pr[1]))})
		}
		ev := newEvent("leveragelp.MsgClosePositions", user)
		ev.Args["liq"] = reqNames(s["liq"])
		ev.Args["sl"] = reqNames(s["sl"])
		d.queue(user, ev, &leveragelptypes.MsgClosePositions{Creator: d.addr(user), Liquidate: liq, StopLoss: sl})
		return true

	case "levStopLoss":
		ev := newEvent("leveragelp.MsgUpdateStopLoss", user)
		ev.Args["id"] = u(uint64(s.I("id")))
		d.queue(user, ev, &leveragelptypes.MsgUpdateStopLoss{Creator: d.addr(user), Position: uint64(s.I("id")), Price: math.LegacyMustNewDecFromStr(s.S("px"))})
		return true

	case "levClaim":
		ev := newEvent("leveragelp.MsgClaimRewards", user)
		d.queue(user, ev, &leveragelptypes.MsgClaimRewards{Sender: d.addr(user), Ids: []uint64{uint64(s.I("id"))}})
		return true

	case "perpOpen":
		p, ok := d.pool(ctx, uint64(s.I("p")))
		if !ok {
			return false
		}
		trading := otherDenom(p, "uusdc")
		coll := s.S("coll")
		if coll == "" {
			coll = "uusdc"
		}
		if coll == "trading" {
			coll = trading
		}
		side := perpetualtypes.Position_LONG
		if s.S("side") == "short" {
			side = perpetualtypes.Position_SHORT
			coll = "uusdc"
		}
		amt := d.size(s.S("sz"), reserve(p, coll))
		lev := s.S("lev")
		if lev == "" {
			lev = "3"
		}
		px := a.OracleKeeper.GetAssetPriceFromDenom(ctx, trading)
		info, _ := a.OracleKeeper.GetAssetInfo(ctx, trading)
		disp, found := a.OracleKeeper.GetAssetPrice(ctx, info.Display)
		if found {
			px = disp.Price
		}
		tp := px.MulInt64(3)
		if side == perpetualtypes.Position_SHORT {
			tp = px.QuoInt64(3)
		}
		if s.Has("tp") {
			tp = px.Mul(math.LegacyMustNewDecFromStr(s.S("tp")))
		}
		sl := math.LegacyZeroDec()
		if s.Has("sl") {
			sl = px.Mul(math.LegacyMustNewDecFromStr(s.S("sl")))
		}
		ev := newEvent("perpetual.MsgOpen", user)
		ev.Args["pool"], ev.Args["side"], ev.Args["collDenom"], ev.Args["collateral"], ev.Args["leverage"] = u(p.PoolId), strings.ToLower(side.String()), coll, amt.String(), ds(math.LegacyMustNewDecFromStr(lev))
		d.queue(user, ev, &perpetualtypes.MsgOpen{Creator: d.addr(user), Position: side, Leverage: math.LegacyMustNewDecFromStr(lev), TradingAsset: trading,
			Collateral: sdk.NewCoin(coll, amt), TakeProfitPrice: tp, StopLossPrice: sl, PoolId: p.PoolId})
		return true

	case "perpClose":
		id := uint64(s.I("id"))
		mtp, err := a.PerpetualKeeper.GetMTP(ctx, c.Addr[user], id)
		if err != nil && !s.Has("exact") {
			var mine []uint64
			for _, m := range a.PerpetualKeeper.GetAllMTPs(ctx) {
				if m.Address == d.addr(user) {
					mine = append(mine, m.Id)
				}
			}
			if len(mine) > 0 {
				id = mine[c.Rand.Intn(len(mine))]
				mtp, err = a.PerpetualKeeper.GetMTP(ctx, c.Addr[user], id)
			}
		}
		amt := math.OneInt()
		if err == nil {
			amt = frac(s.S("frac"), mtp.Custody, c.Rand.Intn)
		}
		ev := newEvent("perpetual.MsgClose", user)
		ev.Args["id"], ev.Args["amount"] = u(id), amt.String()
		d.queue(user, ev, &perpetualtypes.MsgClose{Creator: d.addr(user), Id: id, Amount: amt})
		return true

	case "perpClosePositions":
		if !s.Has("exact") {
			s = Step{"a": s["a"], "u": s["u"], "liq": d.resolveReqs(ctx, s["liq"], true), "sl": d.resolveReqs(ctx, s["sl"], true), "tp": d.resolveReqs(ctx, s["tp"], true)}
		}
		user = s.S("u")
		mk := func(v any) (out []perpetualtypes.PositionRequest) {
			for _, x := range posReqs(d, v) {
				pr := x.([]any)
				out = append(out, perpetualtypes.PositionRequest{Address: d.addr(pr[0].(string)), Id: uint64(numOf(pr[1]))})
			}
			return
		}
		ev := newEvent("perpetual.MsgClosePositions", user)
		ev.Args["liq"], ev.Args["sl"], ev.Args["tp"] = reqNames(s["liq"]), reqNames(s["sl"]), reqNames(s["tp"])
		d.queue(user, ev, &perpetualtypes.MsgClosePositions{Creator: d.addr(user), Liquidate: mk(s["liq"]), StopLoss: mk(s["sl"]), TakeProfit: mk(s["tp"])})
		return true

	case "perpStopLoss":
		ev := newEvent("perpetual.MsgUpdateStopLoss", user)
		ev.Args["id"] = u(uint64(s.I("id")))
		d.queue(user, ev, &perpetualtypes.MsgUpdateStopLoss{Creator: d.addr(user), Id: uint64(s.I("id")), Price: math.LegacyMustNewDecFromStr(s.S("px"))})
		return true

	case "perpTakeProfit":
		ev := newEvent("perpetual.MsgUpdateTakeProfitPrice", user)
		ev.Args["id"] = u(uint64(s.I("id")))
		d.queue(user, ev, &perpetualtypes.MsgUpdateTakeProfitPrice{Creator: d.addr(user), Id: uint64(s.I("id")), Price: math.LegacyMustNewDecFromStr(s.S("px"))})
		return true

	case "claim": // masterchef rewards
		var ids []uint64
		if r, ok := s["pools"].([]any); ok {
			for _, x := range r {
				ids = append(ids, uint64(x.(float64)))
			}
		}
		ev := newEvent("masterchef.MsgClaimRewards", user)
		d.queue(user, ev, &mctypes.MsgClaimRewards{Sender: d.addr(user), PoolIds: ids})
		return true

	case "incentive":
		amt, _ := math.NewIntFromString(s.S("perBlock"))
		ev := newEvent("masterchef.MsgAddExternalIncentive", user)
		ev.Args["pool"], ev.Args["denom"], ev.Args["perBlock"] = u(uint64(s.I("p"))), s.S("d"), amt.String()
		d.queue(user, ev, &mctypes.MsgAddExternalIncentive{Sender: d.addr(user), RewardDenom: s.S("d"), PoolId: uint64(s.I("p")),
			FromBlock: c.Height + 1 + s.I("from"), ToBlock: c.Height + 1 + s.I("from") + s.I("len"), AmountPerBlock: amt})
		return true

	case "commitClaimed", "uncommit", "vest", "cancelVest", "vestNow", "vestLiquid":
		den := s.S("d")
		if den == "" {
			den = "ueden"
		}
		cm := a.CommitmentKeeper.GetCommitments(ctx, c.Addr[user])
		var base math.Int
		switch s.S("a") {
		case "commitClaimed", "vest", "vestNow":
			base = cm.GetClaimedForDenom(den)
		case "uncommit":
			base = cm.GetCommittedAmountForDenom(den)
		case "cancelVest":
			base = math.ZeroInt()
			for _, v := range cm.VestingTokens {
				base = base.Add(v.TotalAmount.Sub(v.ClaimedAmount))
			}
		case "vestLiquid":
			base = a.BankKeeper.GetBalance(ctx, c.Addr[user], den).Amount
		}
		amt := frac(s.S("frac"), base, c.Rand.Intn)
		if s.Has("amt") {
			amt, _ = math.NewIntFromString(s.S("amt"))
		}
		var msg sdk.Msg
		name := ""
		switch s.S("a") {
		case "commitClaimed":
			msg, name = &committypes.MsgCommitClaimedRewards{Creator: d.addr(user), Amount: amt, Denom: den}, "commitment.MsgCommitClaimedRewards"
		case "uncommit":
			msg, name = &committypes.MsgUncommitTokens{Creator: d.addr(user), Amount: amt, Denom: den}, "commitment.MsgUncommitTokens"
		case "vest":
			msg, name = &committypes.MsgVest{Creator: d.addr(user), Amount: amt, Denom: den}, "commitment.MsgVest"
		case "cancelVest":
			msg, name = &committypes.MsgCancelVest{Creator: d.addr(user), Amount: amt, Denom: den}, "commitment.MsgCancelVest"
		case "vestNow":
			msg, name = &committypes.MsgVestNow{Creator: d.addr(user), Amount: amt, Denom: den}, "commitment.MsgVestNow"
		case "vestLiquid":
			msg, name = &committypes.MsgVestLiquid{Creator: d.addr(user), Amount: amt, Denom: den}, "commitment.MsgVestLiquid"
		}
		ev := newEvent(name, user)
		ev.Args["denom"], ev.Args["amt"] = den, amt.String()
		d.queue(user, ev, msg)
		return true

	case "stake", "unstake": // commitment's staking front end: uelys is delegated to / undelegated from the validator, Eden / EdenB are (un)committed
		den := s.S("d")
		if den == "" {
			den = "uelys"
		}
		vals, err := a.StakingKeeper.GetAllValidators(ctx)
		if err != nil || len(vals) == 0 {
			return false
		}
		val := vals[0].GetOperator()
		var base math.Int
		valAddr, _ := sdk.ValAddressFromBech32(val)
		switch {
		case s.S("a") == "stake" && den == "uelys":
			base = a.BankKeeper.GetBalance(ctx, c.Addr[user], den).Amount
		case s.S("a") == "stake":
			cm := a.CommitmentKeeper.GetCommitments(ctx, c.Addr[user])
			base = cm.GetClaimedForDenom(den)
		case den == "uelys":
			base = math.ZeroInt()
			if del, err := a.StakingKeeper.GetDelegation(ctx, c.Addr[user], valAddr); err == nil {
				base = vals[0].TokensFromShares(del.Shares).TruncateInt()
			}
		default:
			cm := a.CommitmentKeeper.GetCommitments(ctx, c.Addr[user])
			base = cm.GetCommittedAmountForDenom(den)
		}
		amt := frac(s.S("frac"), base, c.Rand.Intn)
		if s.Has("amt") {
			amt, _ = math.NewIntFromString(s.S("amt"))
		}
		if s.S("a") == "stake" {
			ev := newEvent("commitment.MsgStake", user)
			ev.Args["denom"], ev.Args["amt"] = den, amt.String()
			d.queue(user, ev, &committypes.MsgStake{Creator: d.addr(user), Amount: amt, Asset: den, ValidatorAddress: val})
		} else {
			ev := newEvent("commitment.MsgUnstake", user)
			ev.Args["denom"], ev.Args["amt"] = den, amt.String()
			d.queue(user, ev, &committypes.MsgUnstake{Creator: d.addr(user), Amount: amt, Asset: den, ValidatorAddress: val})
		}
		return true

	case "withdrawStaking": // estaking: the delegator's rewards from every (real and virtual) validator, or the Elys staking part only
		if s.S("kind") == "elys" {
			d.queue(user, newEvent("estaking.MsgWithdrawElysStakingRewards", user), &estakingtypes.MsgWithdrawElysStakingRewards{DelegatorAddress: d.addr(user)})
		} else {
			d.queue(user, newEvent("estaking.MsgWithdrawAllRewards", user), &estakingtypes.MsgWithdrawAllRewards{DelegatorAddress: d.addr(user)})
		}
		return true

	case "setPortfolio": // tier: anybody may ask for a user's portfolio to be recomputed and stored
		ev := newEvent("tier.MsgSetPortfolio", user)
		ev.Args["user"] = s.S("of")
		d.queue(user, ev, &tiertypes.MsgSetPortfolio{Creator: d.addr(user), User: d.addr(s.S("of"))})
		return true

	case "claimVesting":
		ev := newEvent("commitment.MsgClaimVesting", user)
		d.queue(user, ev, &committypes.MsgClaimVesting{Sender: d.addr(user)})
		return true

	case "spotOrder":
		den := s.S("d") // denom escrowed
		tgt := s.S("target")
		typ := tstypes.SpotOrderType(tstypes.SpotOrderType_value[s.S("type")])
		bal := a.BankKeeper.GetBalance(ctx, c.Addr[user], den).Amount
		amt := d.size(s.S("sz"), bal.QuoRaw(100))
		base, quote := s.S("base"), s.S("quote")
		rate := math.LegacyOneDec()
		if s.Has("rate") {
			rate = math.LegacyMustNewDecFromStr(s.S("rate"))
		} else { // relative to the market price the execution will compare with
			if mp, err := a.TradeshieldKeeper.GetAssetPriceFromDenomInToDenomOut(ctx, base, quote); err == nil {
				rate = mp.Mul(math.LegacyMustNewDecFromStr(s.S("mul")))
			}
		}
		ev := newEvent("tradeshield.MsgCreateSpotOrder", user)
		ev.Args["type"], ev.Args["denom"], ev.Args["amt"], ev.Args["target"], ev.Args["rate"] = typ.String(), den, amt.String(), tgt, ds(rate)
		d.queue(user, ev, &tstypes.MsgCreateSpotOrder{OrderType: typ, OrderPrice: tstypes.OrderPrice{BaseDenom: base, QuoteDenom: quote, Rate: rate},
			OrderAmount: sdk.NewCoin(den, amt), OwnerAddress: d.addr(user), OrderTargetDenom: tgt})
		return true

	case "updateSpot":
		ev := newEvent("tradeshield.MsgUpdateSpotOrder", user)
		ev.Args["id"] = u(uint64(s.I("id")))
		op := tstypes.OrderPrice{BaseDenom: "uatom", QuoteDenom: "uusdc", Rate: math.LegacyOneDec()}
		if o, found := a.TradeshieldKeeper.GetPendingSpotOrder(ctx, uint64(s.I("id"))); found {
			op = o.OrderPrice
		}
		if s.Has("rate") {
			op.Rate = math.LegacyMustNewDecFromStr(s.S("rate"))
		} else if mp, err := a.TradeshieldKeeper.GetAssetPriceFromDenomInToDenomOut(ctx, op.BaseDenom, op.QuoteDenom); err == nil {
			op.Rate = mp.Mul(math.LegacyMustNewDecFromStr(s.S("mul")))
		}
		d.queue(user, ev, &tstypes.MsgUpdateSpotOrder{OwnerAddress: d.addr(user), OrderId: uint64(s.I("id")), OrderPrice: op})
		return true

	case "cancelSpot":
		ev := newEvent("tradeshield.MsgCancelSpotOrder", user)
		ev.Args["id"] = u(uint64(s.I("id")))
		d.queue(user, ev, &tstypes.MsgCancelSpotOrder{OwnerAddress: d.addr(user), OrderId: uint64(s.I("id"))})
		return true

	case "cancelSpots":
		var ids []uint64
		if r, ok := s["ids"].([]any); ok {
			for _, x := range r {
				ids = append(ids, uint64(x.(float64)))
			}
		}
		ev := newEvent("tradeshield.MsgCancelSpotOrders", user)
		ev.Args["ids"] = idStrs(ids)
		d.queue(user, ev, &tstypes.MsgCancelSpotOrders{Creator: d.addr(user), SpotOrderIds: ids})
		return true

	case "perpOrder":
		p, ok := d.pool(ctx, uint64(s.I("p")))
		if !ok {
			return false
		}
		trading := otherDenom(p, "uusdc")
		side := tstypes.PerpetualPosition_LONG
		if s.S("side") == "short" {
			side = tstypes.PerpetualPosition_SHORT
		}
		amt := d.size(s.S("sz"), reserve(p, "uusdc"))
		info, _ := a.OracleKeeper.GetAssetInfo(ctx, trading)
		px := math.LegacyOneDec()
		if pr, found := a.OracleKeeper.GetAssetPrice(ctx, info.Display); found {
			px = pr.Price
		}
		trig := px.Mul(math.LegacyMustNewDecFromStr(s.S("trig")))
		tp := trig.MulInt64(3)
		if side == tstypes.PerpetualPosition_SHORT {
			tp = trig.QuoInt64(3)
		}
		lev := s.S("lev")
		if lev == "" {
			lev = "3"
		}
		ev := newEvent("tradeshield.MsgCreatePerpetualOpenOrder", user)
		ev.Args["pool"], ev.Args["side"], ev.Args["amt"], ev.Args["trig"] = u(p.PoolId), s.S("side"), amt.String(), ds(trig)
		d.queue(user, ev, &tstypes.MsgCreatePerpetualOpenOrder{OwnerAddress: d.addr(user), TriggerPrice: tstypes.TriggerPrice{TradingAssetDenom: trading, Rate: trig},
			Collateral: sdk.NewCoin("uusdc", amt), TradingAsset: trading, Position: side, Leverage: math.LegacyMustNewDecFromStr(lev),
			TakeProfitPrice: tp, StopLossPrice: math.LegacyZeroDec(), PoolId: p.PoolId})
		return true

	case "updatePerpOrder":
		ev := newEvent("tradeshield.MsgUpdatePerpetualOrder", user)
		ev.Args["id"] = u(uint64(s.I("id")))
		tpx := tstypes.TriggerPrice{TradingAssetDenom: "uatom", Rate: math.LegacyOneDec()}
		if o, found := a.TradeshieldKeeper.GetPendingPerpetualOrder(ctx, uint64(s.I("id"))); found {
			tpx = o.TriggerPrice
		}
		if s.Has("rate") {
			tpx.Rate = math.LegacyMustNewDecFromStr(s.S("rate"))
		} else if mp, err := a.PerpetualKeeper.GetAssetPrice(ctx, tpx.TradingAssetDenom); err == nil {
			tpx.Rate = mp.Mul(math.LegacyMustNewDecFromStr(s.S("mul")))
		}
		d.queue(user, ev, &tstypes.MsgUpdatePerpetualOrder{OwnerAddress: d.addr(user), OrderId: uint64(s.I("id")), TriggerPrice: tpx})
		return true

	case "cancelPerpOrders":
		var ids []uint64
		if r, ok := s["ids"].([]any); ok {
			for _, x := range r {
				ids = append(ids, uint64(x.(float64)))
			}
		}
		ev := newEvent("tradeshield.MsgCancelPerpetualOrders", user)
		ev.Args["ids"] = idStrs(ids)
		d.queue(user, ev, &tstypes.MsgCancelPerpetualOrders{OwnerAddress: d.addr(user), OrderIds: ids})
		return true

	case "cancelPerpOrder":
		ev := newEvent("tradeshield.MsgCancelPerpetualOrder", user)
		ev.Args["id"] = u(uint64(s.I("id")))
		d.queue(user, ev, &tstypes.MsgCancelPerpetualOrder{OwnerAddress: d.addr(user), OrderId: uint64(s.I("id"))})
		return true

	case "execOrders":
		var spot, perp []uint64
		if r, ok := s["spot"].([]any); ok {
			for _, x := range r {
				spot = append(spot, uint64(x.(float64)))
			}
		}
		if r, ok := s["perp"].([]any); ok {
			for _, x := range r {
				perp = append(perp, uint64(x.(float64)))
			}
		}
		ev := newEvent("tradeshield.MsgExecuteOrders", user)
		ev.Args["spot"], ev.Args["perp"] = idStrs(spot), idStrs(perp)
		d.queue(user, ev, &tstypes.MsgExecuteOrders{Creator: d.addr(user), SpotOrderIds: spot, PerpetualOrderIds: perp})
		return true
	}
	fmt.Println("unknown step", s)
	return false
}

func routeStrs(ids []uint64) []any { return idStrs(ids) }

// numOf reads a number that a schedule may carry as a JSON number or as a decimal string (TLC models print ids as strings).
func numOf(v any) float64 {
	switch x := v.(type) {
	case float64:
		return x
	case string:
		n, _ := strconv.ParseFloat(x, 64)
		return n
	}
	return 0
}

func idStrs(ids []uint64) []any {
	out := []any{}
	for _, i := range ids {
		out = append(out, u(i))
	}
	return out
}

// resolveReqs maps abstract (owner, id) pairs to existing positions where the pair names none (half of the time),
// so that random walks exercise real positions as well as non-existent ones.
func (d *Driver) resolveReqs(ctx sdk.Context, v any, perp bool) []any {
	arr, _ := v.([]any)
	out := []any{}
	type pk struct {
		owner string
		id    uint64
	}
	var all []pk
	if perp {
		for _, m := range d.C.App.PerpetualKeeper.GetAllMTPs(ctx) {
			all = append(all, pk{d.C.name(m.Address), m.Id})
		}
	} else {
		for _, p := range d.C.App.LeveragelpKeeper.GetAllPositions(ctx) {
			all = append(all, pk{d.C.name(p.Address), p.Id})
		}
	}
	for _, x := range arr {
		pr := x.([]any)
		owner, id := pr[0].(string), uint64(numOf(pr[1]))
		exists := false
		for _, k := range all {
			if k.owner == owner && k.id == id {
				exists = true
			}
		}
		if !exists && len(all) > 0 && d.C.Rand.Intn(2) == 0 {
			k := all[d.C.Rand.Intn(len(all))]
			owner, id = k.owner, k.id
		}
		out = append(out, []any{owner, float64(id)})
	}
	return out
}

func reqNames(v any) []any {
	out := []any{}
	arr, _ := v.([]any)
	for _, x := range arr {
		pr := x.([]any)
		out = append(out, pr[0].(string)+"/"+u(uint64(numOf(pr[1]))))
	}
	return out
}

func (d *Driver) estimateOut(ctx sdk.Context, routes []ammtypes.SwapAmountInRoute, tokenIn sdk.Coin) (out math.Int) {
	defer func() {
		if r := recover(); r != nil {
			out = math.ZeroInt()
		}
	}()
	cc, _ := ctx.CacheContext()
	_, _, tokenOut, _, _, _, _, _, err := d.C.App.AmmKeeper.CalcInRouteSpotPrice(cc, tokenIn, toPtrIn(routes), math.LegacyZeroDec(), math.LegacyZeroDec())
	if err != nil {
		return math.ZeroInt()
	}
	return tokenOut.Amount
}

func (d *Driver) estimateIn(ctx sdk.Context, routes []ammtypes.SwapAmountOutRoute, tokenOut sdk.Coin) (in math.Int) {
	defer func() {
		if r := recover(); r != nil {
			in = math.ZeroInt()
		}
	}()
	cc, _ := ctx.CacheContext()
	_, _, tokenIn, _, _, _, _, _, err := d.C.App.AmmKeeper.CalcOutRouteSpotPrice(cc, tokenOut, toPtrOut(routes), math.LegacyZeroDec(), math.LegacyZeroDec())
	if err != nil {
		return math.ZeroInt()
	}
	return tokenIn.Amount
}

func toPtrIn(rs []ammtypes.SwapAmountInRoute) []*ammtypes.SwapAmountInRoute {
	var out []*ammtypes.SwapAmountInRoute
	for i := range rs {
		out = append(out, &rs[i])
	}
	return out
}
func toPtrOut(rs []ammtypes.SwapAmountOutRoute) []*ammtypes.SwapAmountOutRoute {
	var out []*ammtypes.SwapAmountOutRoute
	for i := range rs {
		out = append(out, &rs[i])
	}
	return out
}
