#!/bin/sh
# Generates go.mod / go.sum for the harness from /repo's, so the harness always
# builds against the current working tree of /repo (replace => /repo).
set -e
REPO=${REPO:-/repo}
cd "$(dirname "$0")"
sed -e 's#^module .*#module elysverif/harness#' "$REPO/go.mod" > go.mod
printf '\nrequire github.com/elys-network/elys v0.0.0\nreplace github.com/elys-network/elys => %s\n' "$REPO" >> go.mod
cp "$REPO/go.sum" go.sum
