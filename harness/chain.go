//go:build verif

package main

import (
	"context"
	storetypes "cosmossdk.io/store/types"
	perpkeeper "github.com/elys-network/elys/x/perpetual/keeper"
	levkeeper "github.com/elys-network/elys/x/leveragelp/keeper"
	"encoding/json"
	"fmt"
	"math/rand"
	"os"
	"runtime/debug"
	"sort"
	"strings"
	"time"

	"cosmossdk.io/log"
	abci "github.com/cometbft/cometbft/abci/types"
	cmtproto "github.com/cometbft/cometbft/proto/tendermint/types"
	dbm "github.com/cosmos/cosmos-db"
	"github.com/cosmos/cosmos-sdk/client/flags"
	"github.com/cosmos/cosmos-sdk/crypto/keys/secp256k1"
	cryptotypes "github.com/cosmos/cosmos-sdk/crypto/types"
	"github.com/cosmos/cosmos-sdk/server"
	simtestutil "github.com/cosmos/cosmos-sdk/testutil/sims"
	sdk "github.com/cosmos/cosmos-sdk/types"
	authtypes "github.com/cosmos/cosmos-sdk/x/auth/types"
	govtypes "github.com/cosmos/cosmos-sdk/x/gov/types"
	"github.com/cosmos/gogoproto/proto"

	elysapp "github.com/elys-network/elys/app"
)

// Genesis is the shared starting point of all replicas of one run: identical
// genesis BYTES (GenesisStateWithValSet draws random keys and the wall clock,
// so they are produced once and reused).
type Genesis struct {
	StateBytes []byte
	ValHash    []byte
	Time       time.Time
}

const genesisUnix = 1700000000

func MakeGenesis(tmp string) *Genesis {
	a := newRawApp(dbm.NewMemDB(), tmp, true)
	bz, valHash := deterministicGenesis(a)
	return &Genesis{StateBytes: bz, ValHash: valHash, Time: time.Unix(genesisUnix, 0).UTC()}
}

func newRawApp(db dbm.DB, tmp string, load bool) *elysapp.ElysApp {
	return newRawAppLogger(log.NewNopLogger(), db, tmp, load)
}

func newRawAppLogger(lg log.Logger, db dbm.DB, tmp string, load bool) *elysapp.ElysApp {
	opts := simtestutil.AppOptionsMap{flags.FlagHome: "", server.FlagInvCheckPeriod: 1}
	return elysapp.NewElysApp(lg, db, nil, load, map[int64]bool{}, tmp, opts)
}

// chainLogger is the (silent) logger handed to an application instance: the build-tag guarded hooks of /repo
// (x/leveragelp, x/perpetual: verifPositionProcessed) are package-level, the context they receive carries the logger of
// the application that runs them, and the logger leads back to the Chain driving that application.
type chainLogger struct {
	log.Logger
	c *Chain
}

func (l *chainLogger) With(keyVals ...any) log.Logger { return l }
func (l *chainLogger) Impl() any                      { return l }

func init() {
	hook := func(ctx sdk.Context, where string, owner string, id uint64) {
		if cl, ok := ctx.Logger().(*chainLogger); ok && cl.c != nil {
			cl.c.observeSub(ctx, where, owner, id)
		}
	}
	levkeeper.VerifPositionProcessed = hook
	perpkeeper.VerifPositionProcessed = hook
}

// observeSub records the state between two positions of a leveragelp sweep / close-positions message / perpetual
// close-positions message (the linearization points of third-party closes, C10).
func (c *Chain) observeSub(ctx sdk.Context, where string, owner string, id uint64) {
	if c.NoObs || c.Rec == nil || ctx.IsCheckTx() || ctx.IsReCheckTx() {
		return
	}
	o := &Obs{Kind: "Sub", OK: true, Tx: -1, Where: where, Owner: c.name(owner), ID: id}
	if len(ctx.TxBytes()) > 0 {
		i, found := c.txIndex[string(ctx.TxBytes())]
		if !found {
			return
		}
		o.Tx = i
	}
	o.State = c.Project(unmetered(ctx))
	c.obs = append(c.obs, o)
}

// unmetered: the projection reads the same stores through a context with its own infinite gas meter, so that observing a
// transaction does not consume the transaction's (and thereby the block's) gas.
func unmetered(ctx sdk.Context) sdk.Context {
	return ctx.WithGasMeter(storetypes.NewInfiniteGasMeter())
}

// TxSpec is one transaction to be placed in the next block.
type TxSpec struct {
	Signer string    // symbolic account name
	Msgs   []sdk.Msg // messages
	Fee    sdk.Coins
	Ev     *Event // event record describing it (args filled by the driver)
	Evs    []*Event // composite transaction: one event record per message (Ev describes the transaction as a whole if it fails)
}

// Chain drives one real ElysApp through ABCI and records observations.
type Chain struct {
	OwnDenom string // authority enumeration: base denom of the asset-profile listing created by the user sender class
	App     *elysapp.ElysApp
	DB      dbm.DB
	Gen     *Genesis
	Tmp     string
	Height  int64
	Time    time.Time
	Keys    map[string]cryptotypes.PrivKey
	Addr    map[string]sdk.AccAddress
	Users   []string
	Names   map[string]string // bech32 -> symbolic name
	Rand    *rand.Rand
	Rec     *Recorder // nil = do not record
	Halted  string    // non-empty once block processing failed
	obs     []*Obs    // observations of the block being processed
	pending []TxSpec
	Hashes  [][]byte // app hash after each committed height (index = height)
	Results []string // digest of tx results per height
	NoObs   bool     // replicas: do not project
	lastErr string
	txIndex map[string]int
	ProbeDenoms []string
	ProbeAssets []string
	Registry bool // project module parameters (scene option)
	Listed   []string // denoms the scene (standing for genesis / governance) registered bank metadata for: what the burner may burn
	composite map[int]bool // transactions of the block being processed that carry several observed messages
	msgSeen   map[int]int
	Mempool  bool // C19: behave like a node with a mempool and an RPC: CheckTx and Simulate every transaction before the block
	RestartEveryBlock bool // C19: re-instantiate the application from its database after every committed block
}

// Obs is one observation point inside a block.
type Obs struct {
	Kind  string // Begin, Ante, Tx, End, Sub
	Tx    int
	OK    bool
	State map[string]any
	Where string // Sub: call site
	Owner string // Sub: position just processed ("" at the start of the loop)
	ID    uint64
}

func (c *Chain) gov() string { return authtypes.NewModuleAddress(govtypes.ModuleName).String() }

// NewChain builds an app over a fresh MemDB, runs InitChain and the first (empty) block.
func NewChain(gen *Genesis, tmp string, seed int64, rec *Recorder) *Chain {
	c := &Chain{DB: dbm.NewMemDB(), Gen: gen, Tmp: tmp, Rec: rec,
		Keys: map[string]cryptotypes.PrivKey{}, Addr: map[string]sdk.AccAddress{}, Names: map[string]string{},
		Rand: rand.New(rand.NewSource(seed))}
	c.App = c.buildApp()
	_, err := c.App.InitChain(&abci.RequestInitChain{
		Validators:      []abci.ValidatorUpdate{},
		ConsensusParams: simtestutil.DefaultConsensusParams,
		AppStateBytes:   gen.StateBytes,
		Time:            gen.Time,
	})
	if err != nil {
		panic(err)
	}
	c.Time = gen.Time
	c.Hashes = [][]byte{nil}
	c.Results = []string{""}
	return c
}

// buildApp constructs the real application and wraps the four block/tx level
// handlers with observers that call the unchanged originals.
func (c *Chain) buildApp() *elysapp.ElysApp {
	a := newRawAppLogger(&chainLogger{Logger: log.NewNopLogger(), c: c}, c.DB, c.Tmp, false)
	realAnte := a.AnteHandler()
	a.SetAnteHandler(func(ctx sdk.Context, tx sdk.Tx, sim bool) (sdk.Context, error) {
		nctx, err := realAnte(ctx, tx, sim)
		if err == nil && !ctx.IsCheckTx() && !ctx.IsReCheckTx() && !sim {
			c.observe(nctx, "Ante", true)
		}
		return nctx, err
	})
	a.SetPostHandler(func(ctx sdk.Context, tx sdk.Tx, sim, success bool) (sdk.Context, error) {
		if !ctx.IsCheckTx() && !ctx.IsReCheckTx() && !sim {
			c.observe(ctx, "Tx", success)
		}
		return ctx, nil
	})
	a.SetBeginBlocker(func(ctx sdk.Context) (sdk.BeginBlock, error) {
		r, err := a.BeginBlocker(ctx)
		if err == nil {
			c.observe(ctx, "Begin", true)
		}
		return r, err
	})
	a.SetEndBlocker(func(ctx sdk.Context) (sdk.EndBlock, error) {
		c.observe(ctx, "PreEnd", true) // the block state the end-blocker starts from
		r, err := a.EndBlocker(ctx)
		if err == nil {
			c.observe(ctx, "End", true)
		}
		return r, err
	})
	// the message router consults its circuit breaker before EVERY message (the application installs none): an observation
	// point between the messages of one transaction, on the transaction's own branch
	a.MsgServiceRouter().SetCircuit(&msgObserver{c: c})
	if err := a.LoadLatestVersion(); err != nil {
		panic(err)
	}
	return a
}

type msgObserver struct{ c *Chain }

func (m *msgObserver) IsAllowed(goCtx context.Context, _ string) (bool, error) {
	c := m.c
	if c.NoObs || c.Rec == nil || c.composite == nil {
		return true, nil
	}
	ctx := sdk.UnwrapSDKContext(goCtx)
	if ctx.IsCheckTx() || ctx.IsReCheckTx() || ctx.ExecMode() != sdk.ExecModeFinalize || len(ctx.TxBytes()) == 0 {
		return true, nil
	}
	i, found := c.txIndex[string(ctx.TxBytes())]
	if !found || !c.composite[i] {
		return true, nil
	}
	c.msgSeen[i]++
	if c.msgSeen[i] > 1 { // the state before message k (k >= 2) is the state after message k-1
		c.obs = append(c.obs, &Obs{Kind: "Msg", OK: true, Tx: i, ID: uint64(c.msgSeen[i] - 1), State: c.Project(unmetered(ctx))})
	}
	return true, nil
}

// Restart re-instantiates the application from its database (node restart).
func (c *Chain) Restart() {
	c.App = c.buildApp()
}

func (c *Chain) observe(ctx sdk.Context, kind string, ok bool) {
	if c.NoObs {
		return
	}
	o := &Obs{Kind: kind, OK: ok, Tx: -1}
	if kind == "Ante" || kind == "Tx" {
		i, found := c.txIndex[string(ctx.TxBytes())]
		if !found {
			return
		}
		o.Tx = i
	}
	if kind == "Tx" && !ok {
		// the context of a failed tx still holds its partial writes (baseapp discards them afterwards)
		o.State = nil
	} else {
		o.State = c.Project(unmetered(ctx))
	}
	c.obs = append(c.obs, o)
}

// AddKey registers a deterministic key under a symbolic name.
func (c *Chain) AddKey(name string) sdk.AccAddress {
	k := secp256k1.GenPrivKeyFromSecret([]byte("elys-verif-" + name))
	c.Keys[name] = k
	a := sdk.AccAddress(k.PubKey().Address())
	c.Addr[name] = a
	c.Names[a.String()] = name
	return a
}

// AdminCtx returns a context writing straight into the committed multistore's working
// set; used only between Commit and the next FinalizeBlock (scene set-up, governance
// actions), identically on every replica.
func (c *Chain) AdminCtx() sdk.Context {
	h := cmtproto.Header{Height: c.Height, Time: c.Time}
	return c.App.NewUncachedContext(false, h).WithBlockHeight(c.Height).WithBlockTime(c.Time)
}

// ReadCtx is a read-only view of the committed state.
func (c *Chain) ReadCtx() sdk.Context {
	h := cmtproto.Header{Height: c.Height, Time: c.Time}
	ctx := c.App.NewUncachedContext(false, h).WithBlockHeight(c.Height).WithBlockTime(c.Time)
	cc, _ := ctx.CacheContext()
	return cc
}

// Admin routes a message through the real MsgServiceRouter on the admin context.
// The handler runs on a cache context which is written only on success.
func (c *Chain) Admin(msg sdk.Msg) (res *sdk.Result, err error) {
	defer func() {
		if r := recover(); r != nil {
			err = fmt.Errorf("panic: %v", r)
		}
	}()
	h := c.App.MsgServiceRouter().Handler(msg)
	if h == nil {
		return nil, fmt.Errorf("no handler for %s", sdk.MsgTypeURL(msg))
	}
	ctx := c.AdminCtx()
	cc, write := ctx.CacheContext()
	res, err = h(cc, msg)
	if err == nil {
		write()
	}
	return res, err
}

// AdminEv applies a governance-authority message between blocks and records it as an "Admin" observation.
func (c *Chain) AdminEv(ev *Event, msg sdk.Msg) error {
	if len(c.pending) > 0 {
		c.NextBlock(5) // governance acts between blocks: first execute what is queued
	}
	_, err := c.Admin(msg)
	ev.OK = err == nil
	if err != nil {
		ev.Log = truncate(err.Error(), 300)
		ev.Code = 1
	}
	if c.Rec != nil && !c.NoObs {
		c.Rec.Line("Admin", c.Height, c.Time.Unix(), -1, ev, c.Project(c.ReadCtx()))
	}
	return err
}

// Queue adds a transaction to the next block.
func (c *Chain) Queue(tx TxSpec) { c.pending = append(c.pending, tx) }

type txOutcome struct {
	Spec TxSpec
	Code uint32
	Log  string
	Res  *abci.ExecTxResult
}

// EndBlock processes the pending transactions in one block (FinalizeBlock + Commit)
// and writes the observations of that block to the recorder.  dt is the time step
// from the previous block.
func (c *Chain) NextBlock(dt int64) (outs []txOutcome) {
	if c.Halted != "" {
		c.pending = nil
		return nil
	}
	c.Height++
	c.Time = c.Time.Add(time.Duration(dt) * time.Second)
	seqs := map[string]uint64{}
	c.txIndex = map[string]int{}
	var txs [][]byte
	c.composite, c.msgSeen = map[int]bool{}, map[int]int{}
	specs := c.pending
	c.pending = nil
	rctx := c.ReadCtx()
	for _, s := range specs {
		addr := c.Addr[s.Signer]
		acc := c.App.AccountKeeper.GetAccount(rctx, addr)
		if acc == nil {
			panic("unknown account " + s.Signer)
		}
		seq, ok := seqs[s.Signer]
		if !ok {
			seq = acc.GetSequence()
		}
		// a message rejected by ValidateBasic never reaches the ante handler: the signer's sequence does not advance
		basicOK := true
		for _, m := range s.Msgs {
			if vb, ok := m.(sdk.HasValidateBasic); ok && vb.ValidateBasic() != nil {
				basicOK = false
			}
		}
		if basicOK {
			seqs[s.Signer] = seq + 1
		} else {
			seqs[s.Signer] = seq
		}
		tx, err := simtestutil.GenSignedMockTx(c.Rand, c.App.TxConfig(), s.Msgs, s.Fee, 50_000_000, "",
			[]uint64{acc.GetAccountNumber()}, []uint64{seq}, c.Keys[s.Signer])
		if err != nil {
			panic(err)
		}
		bz, err := c.App.TxConfig().TxEncoder()(tx)
		if err != nil {
			panic(err)
		}
		txs = append(txs, bz)
		c.txIndex[string(bz)] = len(txs) - 1
		if len(s.Evs) > 1 && len(s.Evs) == len(s.Msgs) {
			c.composite[len(txs)-1] = true
		}
	}
	if c.Mempool {
		// what a validator with a mempool and clients estimating gas does before the block arrives; none of it may influence
		// the state transition (both run on branches of the check state that are never written)
		for _, bz := range txs {
			func() {
				defer func() { recover() }()
				c.App.CheckTx(&abci.RequestCheckTx{Tx: bz, Type: abci.CheckTxType_New})
				c.App.Simulate(bz)
			}()
		}
	}
	c.obs = nil
	var res *abci.ResponseFinalizeBlock
	var err error
	func() {
		defer func() {
			if r := recover(); r != nil {
				err = fmt.Errorf("panic in FinalizeBlock: %v\n%s", r, shortStack())
			}
		}()
		res, err = c.App.FinalizeBlock(&abci.RequestFinalizeBlock{
			Height: c.Height, Time: c.Time, Txs: txs,
			Hash:               c.App.LastCommitID().Hash,
			NextValidatorsHash: c.Gen.ValHash,
		})
	}()
	if err != nil {
		c.Halted = err.Error()
		c.emitHalt(specs)
		return nil
	}
	func() {
		defer func() {
			if r := recover(); r != nil {
				err = fmt.Errorf("panic in Commit: %v", r)
			}
		}()
		_, err = c.App.Commit()
	}()
	if err != nil {
		c.Halted = err.Error()
		c.emitHalt(specs)
		return nil
	}
	hash := append([]byte{}, c.App.LastCommitID().Hash...)
	c.Hashes = append(c.Hashes, hash)
	if c.RestartEveryBlock {
		c.Restart()
	}
	var rd strings.Builder
	for i, r := range res.TxResults {
		outs = append(outs, txOutcome{Spec: specs[i], Code: r.Code, Log: r.Log, Res: r})
		fmt.Fprintf(&rd, "%d:%d:%s:%x:%d:%d;", i, r.Code, r.Codespace, r.Data, r.GasWanted, r.GasUsed) // what CometBFT hashes into LastResultsHash
		for _, e := range r.Events {
			rd.WriteString(e.Type)
			for _, a := range e.Attributes {
				rd.WriteString("|" + a.Key + "=" + a.Value)
			}
		}
	}
	for _, e := range res.Events {
		rd.WriteString(e.Type)
		for _, a := range e.Attributes {
			rd.WriteString("|" + a.Key + "=" + a.Value)
		}
	}
	c.Results = append(c.Results, rd.String())
	if c.Rec != nil && !c.NoObs {
		c.emitBlock(specs, res, hash)
	}
	return outs
}

func shortStack() string {
	s := string(debug.Stack())
	lines := strings.Split(s, "\n")
	var keep []string
	for _, l := range lines {
		if strings.Contains(l, "elys-network/elys/x/") || strings.Contains(l, "/repo/x/") {
			keep = append(keep, strings.TrimSpace(l))
		}
		if len(keep) > 12 {
			break
		}
	}
	return strings.Join(keep, " <- ")
}

// ---------------------------------------------------------------- trace emission

// Event is the "ev" part of a trace line.
type Event struct {
	Name   string         `json:"name"`
	Sender string         `json:"sender"`
	OK     bool           `json:"ok"`
	Code   int            `json:"code"`
	Log    string         `json:"log"`
	Args   map[string]any `json:"args"`
	Resp   map[string]any `json:"resp"`
	Abci   []map[string]string `json:"abci"`
	Stage  string              `json:"stage"` // for failed transactions: "ante" (rejected before its messages ran) or "msgs"
}

func newEvent(name, sender string) *Event {
	return &Event{Name: name, Sender: sender, OK: true, Args: map[string]any{}, Resp: map[string]any{}, Abci: []map[string]string{}}
}

func (c *Chain) abciEvents(evs []abci.Event) []map[string]string {
	out := []map[string]string{}
	for _, e := range evs {
		if !interestingEvent[e.Type] {
			continue
		}
		m := map[string]string{"type": e.Type}
		for _, a := range e.Attributes {
			v := a.Value
			if n, ok := c.Names[v]; ok {
				v = n
			}
			m[a.Key] = v
		}
		if e.Type == "token_swapped" { // split the coin strings (presentation only)
			for _, side := range []string{"in", "out"} {
				if cs, err := sdk.ParseCoinsNormalized(m["tokens_"+side]); err == nil && len(cs) == 1 {
					m[side+"_amt"], m[side+"_denom"] = cs[0].Amount.String(), cs[0].Denom
				} else {
					m[side+"_amt"], m[side+"_denom"] = "0", ""
				}
			}
		}
		if e.Type == "complete_unbonding" || e.Type == "withdraw_rewards" { // one record per coin paid to the delegator
			cs, err := sdk.ParseCoinsNormalized(m["amount"])
			if err != nil || len(cs) == 0 {
				m["amt"], m["denom"] = "0", ""
				out = append(out, m)
				continue
			}
			for _, coin := range cs {
				mm := map[string]string{}
				for k, v := range m {
					mm[k] = v
				}
				mm["amt"], mm["denom"] = coin.Amount.String(), coin.Denom
				out = append(out, mm)
			}
			continue
		}
		out = append(out, m)
	}
	return out
}

// ABCI event types copied into the trace (the contracts attribute end-of-block effects with them).
var interestingEvent = map[string]bool{
	"token_swapped": true, "pool_joined": true, "pool_exited": true,
	"perpetual_mtp_open": true, "perpetual_mtp_close": true, "perpetual_mtp_force_closed": true, "perpetual_mtp_update": true,
	"perpetual_mtp_close_positions": true,
	"leveragelp_mtp_open": true, "leveragelp_mtp_close": true, "leveragelp_mtp_liquidation": true, "leveragelp_mtp_stop_loss": true,
	"leveragelp_position_open": true, "leveragelp_position_close": true, "leveragelp_position_liquidation": true, "leveragelp_position_stop_loss": true,
	"swap_failed": true,
	"complete_unbonding": true, // staking's end blocker pays matured unbondings back to the delegator
	"withdraw_rewards":   true, // distribution pays a delegator's pending rewards whenever its delegation changes (estaking's end blocker does that)
}

func (c *Chain) emitBlock(specs []TxSpec, res *abci.ResponseFinalizeBlock, hash []byte) {
	var last map[string]any
	forceStage := ""
	emitTx := func(i int, st map[string]any) {
		r := res.TxResults[i]
		observed := false
		for _, o := range c.obs {
			if (o.Kind == "Tx" || o.Kind == "Ante") && o.Tx == i { // ante passed: the messages ran (a panic in them skips the post handler)
				observed = true
			}
		}
		ev := specs[i].Ev
		if ev == nil {
			ev = newEvent("tx", specs[i].Signer)
		}
		ev.OK = r.Code == 0
		ev.Stage = "msgs"
		if !observed {
			ev.Stage = "ante"
		}
		if forceStage != "" {
			ev.Stage = forceStage
		}
		ev.Code = int(r.Code)
		ev.Log = truncate(r.Log, 300)
		ev.Abci = c.abciEvents(r.Events)
		c.decodeResp(ev, r)
		if st == nil {
			st = last
		}
		c.Rec.Line("Tx", c.Height, c.Time.Unix(), i, ev, st)
		last = st
	}
	// Observations arrive in order: Begin, (Ante_i, Tx_i)*, End.  A tx whose ante handler
	// failed produces no observation at all (baseapp returns before the messages and the
	// post handler); it is emitted as a failed Tx event with the state unchanged.
	next := 0
	flush := func(upTo int) {
		for next < upTo {
			emitTx(next, nil)
			next++
		}
	}
	keepSub := c.subGroupsToKeep(res)
	for oi, o := range c.obs {
		switch o.Kind {
		case "Sub":
			if !keepSub[oi] {
				continue
			}
			if o.Tx >= 0 {
				flush(o.Tx)
			}
			ev := newEvent("Sub", "")
			ev.Args["where"], ev.Args["owner"], ev.Args["id"] = o.Where, o.Owner, fmt.Sprintf("%d", o.ID)
			c.Rec.Line("Sub", c.Height, c.Time.Unix(), o.Tx, ev, o.State)
		case "Begin":
			c.Rec.Line("Begin", c.Height, c.Time.Unix(), -1, newEvent("BeginBlock", ""), o.State)
			last = o.State
		case "Ante":
			flush(o.Tx)
			ev := newEvent("Ante", specs[o.Tx].Signer)
			ev.Args["fee"] = coinsMap(specs[o.Tx].Fee)
			c.Rec.Line("Ante", c.Height, c.Time.Unix(), o.Tx, ev, o.State)
			last = o.State
		case "Msg":
			// between two messages of a composite transaction: emitted (below, with the Tx observation) only if the whole transaction succeeded
		case "Tx":
			flush(o.Tx)
			if c.composite[o.Tx] && o.OK && res.TxResults[o.Tx].Code == 0 {
				c.emitComposite(o.Tx, specs[o.Tx], res.TxResults[o.Tx], o.State)
				last = o.State
				next = o.Tx + 1
				continue
			}
			if o.OK && res.TxResults[o.Tx].Code != 0 {
				// the messages and the post handler succeeded, yet the transaction failed afterwards (BaseApp charges the block gas
				// meter between the post handler and the write of the message cache: "out of gas in location: block gas meter"):
				// the cache the post handler looked at was discarded, the state is the one after the ante handler
				// (not a failure of the messages themselves - stage "blockgas": "this message always succeeds" contracts do not apply)
				forceStage = "blockgas"
				emitTx(o.Tx, nil)
				forceStage = ""
			} else {
				emitTx(o.Tx, o.State)
			}
			next = o.Tx + 1
		case "PreEnd":
			flush(len(specs))
			c.Rec.Line("PreEnd", c.Height, c.Time.Unix(), -1, newEvent("PreEnd", ""), o.State)
			last = o.State
		case "End":
			flush(len(specs))
			ev := newEvent("EndBlock", "")
			ev.Abci = c.abciEvents(res.Events)
			c.Rec.Line("End", c.Height, c.Time.Unix(), -1, ev, o.State)
			last = o.State
		}
	}
	ev := newEvent("Commit", "")
	ev.Args["hash"] = fmt.Sprintf("%x", hash)
	c.Rec.Line("Commit", c.Height, c.Time.Unix(), -1, ev, last)
}

// emitComposite writes a successful composite transaction as one Tx line PER MESSAGE: message k with its own event record, the
// events BaseApp tagged msg_index = k-1, its own response, and the state observed right after it (before message k+1 / in
// the post handler for the last one).  Every per-message contract therefore applies unchanged.
func (c *Chain) emitComposite(i int, spec TxSpec, r *abci.ExecTxResult, final map[string]any) {
	states := map[int]map[string]any{}
	for _, o := range c.obs {
		if o.Kind == "Msg" && o.Tx == i {
			states[int(o.ID)] = o.State // state after message number o.ID (1-based)
		}
	}
	var md sdk.TxMsgData
	haveResp := len(r.Data) > 0 && proto.Unmarshal(r.Data, &md) == nil && len(md.MsgResponses) == len(spec.Msgs)
	n := len(spec.Msgs)
	for k := 1; k <= n; k++ {
		ev := spec.Evs[k-1]
		ev.OK, ev.Stage, ev.Code, ev.Log = true, "msgs", 0, ""
		ev.Args["composite"] = fmt.Sprintf("%d/%d", k, n)
		var mine []abci.Event
		for _, e := range r.Events {
			idx := ""
			for _, a := range e.Attributes {
				if a.Key == "msg_index" {
					idx = a.Value
				}
			}
			if idx == fmt.Sprintf("%d", k-1) {
				mine = append(mine, e)
			}
		}
		ev.Abci = c.abciEvents(mine)
		if haveResp {
			one := sdk.TxMsgData{MsgResponses: md.MsgResponses[k-1 : k]}
			if bz, err := proto.Marshal(&one); err == nil {
				c.decodeResp(ev, &abci.ExecTxResult{Code: 0, Data: bz})
			}
		}
		st := final
		if k < n {
			st = states[k]
			if st == nil {
				panic(fmt.Sprintf("composite transaction %d: no observation after message %d", i, k))
			}
		}
		c.Rec.Line("Tx", c.Height, c.Time.Unix(), i, ev, st)
	}
}

// positionsAltered: did the set of positions or any position's size / collateral / debt change between two projected states?
func positionsAltered(a, b map[string]any) bool {
	sig := func(st map[string]any, mod, tbl string, fields ...string) string {
		m, _ := st[mod].(map[string]any)
		t, _ := m[tbl].(map[string]any)
		keys := make([]string, 0, len(t))
		for k := range t {
			keys = append(keys, k)
		}
		sort.Strings(keys)
		var sb strings.Builder
		for _, k := range keys {
			p, _ := t[k].(map[string]any)
			sb.WriteString(k)
			for _, f := range fields {
				sb.WriteString(fmt.Sprintf("|%v", p[f]))
			}
			sb.WriteString(";")
		}
		return sb.String()
	}
	return sig(a, "lev", "positions", "lp", "collateral", "liab") != sig(b, "lev", "positions", "lp", "collateral", "liab") ||
		sig(a, "perp", "mtps", "collateral", "liab", "custody") != sig(b, "perp", "mtps", "collateral", "liab", "custody")
}

// subGroupsToKeep: the Sub observations of a step (the begin blocker, or one transaction) are written to the trace only if
// the step altered a position at all and - for a transaction - was not rolled back; otherwise they carry no information.
func (c *Chain) subGroupsToKeep(res *abci.ResponseFinalizeBlock) map[int]bool {
	keep := map[int]bool{}
	group := []int{}
	closeGroup := func(end map[string]any, ok bool) {
		if ok && len(group) > 0 && end != nil && positionsAltered(c.obs[group[0]].State, end) {
			for _, i := range group {
				keep[i] = true
			}
		}
		group = group[:0]
	}
	for i, o := range c.obs {
		switch o.Kind {
		case "Sub":
			if len(group) > 0 && c.obs[group[0]].Tx != o.Tx {
				closeGroup(nil, false) // the step the earlier group belongs to ended without an observation (failed transaction)
			}
			group = append(group, i)
		case "Begin":
			closeGroup(o.State, true)
		case "Tx":
			ok := len(group) > 0 && c.obs[group[0]].Tx == o.Tx && o.OK && res.TxResults[o.Tx].Code == 0
			closeGroup(o.State, ok)
		case "Ante", "PreEnd", "End":
			closeGroup(nil, false)
		}
	}
	return keep
}

func (c *Chain) emitHalt(specs []TxSpec) {
	if c.Rec == nil {
		return
	}
	ev := newEvent("Halt", "")
	ev.OK = false
	ev.Log = truncate(c.Halted, 600)
	var names []string
	for _, s := range specs {
		if s.Ev != nil {
			names = append(names, s.Ev.Name)
		}
	}
	ev.Args["txs"] = strings.Join(names, ",")
	c.Rec.Line("Halt", c.Height, c.Time.Unix(), -1, ev, nil)
}

func truncate(s string, n int) string {
	s = strings.ReplaceAll(s, "\n", " ")
	if len(s) > n {
		return s[:n]
	}
	return s
}

func (c *Chain) decodeResp(ev *Event, r *abci.ExecTxResult) {
	if r.Code != 0 || len(r.Data) == 0 {
		return
	}
	var md sdk.TxMsgData
	if err := proto.Unmarshal(r.Data, &md); err != nil {
		return
	}
	for _, any := range md.MsgResponses {
		var m proto.Message
		if err := c.App.InterfaceRegistry().UnpackAny(any, &m); err != nil {
			// responses are not registered as interface implementations everywhere: resolve by name
			mt, e2 := c.App.InterfaceRegistry().Resolve(any.TypeUrl)
			if e2 != nil {
				continue
			}
			if e3 := proto.Unmarshal(any.Value, mt); e3 != nil {
				continue
			}
			m = mt
		}
		respFields(ev, m)
	}
}

// Recorder writes ndjson trace lines.
type Recorder struct {
	f     *os.File
	n     int
	prev  map[string]any
	Lines int
}

func NewRecorder(path string) *Recorder {
	f, err := os.Create(path)
	if err != nil {
		panic(err)
	}
	return &Recorder{f: f}
}

func (r *Recorder) Close() { r.f.Close() }

func (r *Recorder) Line(kind string, h int64, t int64, tx int, ev *Event, st map[string]any) {
	r.n++
	if st == nil {
		st = r.prev
	}
	if st == nil {
		st = map[string]any{}
	}
	if kind != "Sub" { // a state in the middle of a step is nobody's "previous state"
		r.prev = st
	}
	line := map[string]any{"i": r.n, "kind": kind, "h": h, "t": t, "tx": tx, "ev": ev, "state": st}
	bz, err := json.Marshal(line)
	if err != nil {
		panic(err)
	}
	r.f.Write(bz)
	r.f.Write([]byte("\n"))
	r.Lines++
}

// Reset marks the start of a new schedule in a concatenated trace file.
func (r *Recorder) Reset(id string, st map[string]any) {
	r.prev = nil
	ev := newEvent("Reset", "")
	ev.Args["schedule"] = id
	r.Line("Reset", 0, 0, -1, ev, st)
}

func coinsMap(cs sdk.Coins) map[string]string {
	m := map[string]string{}
	for _, c := range cs {
		m[c.Denom] = c.Amount.String()
	}
	return m
}

func sortedKeys[V any](m map[string]V) []string {
	ks := make([]string, 0, len(m))
	for k := range m {
		ks = append(ks, k)
	}
	sort.Strings(ks)
	return ks
}
