//go:build verif

package main

import (
	"github.com/cosmos/gogoproto/proto"

	ammtypes "github.com/elys-network/elys/x/amm/types"
	perpetualtypes "github.com/elys-network/elys/x/perpetual/types"
	tstypes "github.com/elys-network/elys/x/tradeshield/types"
)

// respFields copies the message response fields the contracts use into the event record.
func respFields(ev *Event, m proto.Message) {
	switch r := m.(type) {
	case *ammtypes.MsgCreatePoolResponse:
		ev.Resp["poolId"] = u(r.PoolID)
	case *ammtypes.MsgJoinPoolResponse:
		ev.Resp["shareOut"] = is(r.ShareAmountOut)
		ev.Resp["tokenIn"] = coinsListMap(r.TokenIn)
	case *ammtypes.MsgExitPoolResponse:
		ev.Resp["tokenOut"] = coinsListMap(r.TokenOut)
	case *ammtypes.MsgSwapExactAmountInResponse:
		ev.Resp["tokenOutAmount"] = is(r.TokenOutAmount)
		ev.Resp["swapFee"] = ds(r.SwapFee)
		ev.Resp["discount"] = ds(r.Discount)
	case *ammtypes.MsgSwapExactAmountOutResponse:
		ev.Resp["tokenInAmount"] = is(r.TokenInAmount)
		ev.Resp["swapFee"] = ds(r.SwapFee)
		ev.Resp["discount"] = ds(r.Discount)
	case *perpetualtypes.MsgOpenResponse:
		ev.Resp["id"] = u(r.Id)
	case *perpetualtypes.MsgCloseResponse:
		ev.Resp["id"] = u(r.Id)
		ev.Resp["amount"] = is(r.Amount)
	case *tstypes.MsgCreateSpotOrderResponse:
		ev.Resp["orderId"] = u(r.OrderId)
	case *tstypes.MsgCreatePerpetualOpenOrderResponse:
		ev.Resp["orderId"] = u(r.OrderId)
	}
}
