//go:build verif

package main

import (
	"bufio"
	"encoding/json"
	"flag"
	"fmt"
	"hash/fnv"
	"math/big"
	"math/rand"
	"os"

	"cosmossdk.io/math"
	sdk "github.com/cosmos/cosmos-sdk/types"

	ammtypes "github.com/elys-network/elys/x/amm/types"
	oracletypes "github.com/elys-network/elys/x/oracle/types"
)

// "pure" driver (pricing family, C03 / C05): instantiates every class of the lattice
// enumerated by spec/mc/MC_pricing.tla with seeded concrete values and calls the REAL pool
// functions (Pool.SwapOutAmtGivenIn, SwapInAmtGivenOut, JoinPool, ExitPool) with the real
// oracle and accounted-pool keepers of an ElysApp.  Every call is one trace event; the
// bounds are evaluated by TLC (spec/trace/TracePure.tla), not here.

type PCase map[string]any

func (c PCase) S(k string) string { return Step(c).S(k) }
func (c PCase) I(k string) int64  { return Step(c).I(k) }

func pow10(n int) math.Int {
	return math.NewIntFromBigInt(new(big.Int).Exp(big.NewInt(10), big.NewInt(int64(n)), nil))
}

func jitterInt(r *rand.Rand, x math.Int) math.Int {
	// multiply by a random factor in [0.5, 1.5)
	f := int64(500 + r.Intn(1000))
	y := x.MulRaw(f).QuoRaw(1000)
	if !y.IsPositive() {
		return math.OneInt()
	}
	return y
}

func init() { extraCmds["pure"] = cmdPure }

func cmdPure(args []string) {
	fs := flag.NewFlagSet("pure", flag.ExitOnError)
	casesFile := fs.String("cases", "", "ndjson of class tuples")
	out := fs.String("out", "", "trace file")
	seed := fs.Int64("seed", 1, "seed")
	draws := fs.Int("draws", 1, "concrete draws per class")
	fs.Parse(args)
	tmp, _ := os.MkdirTemp("", "elyspure")
	defer os.RemoveAll(tmp)
	gen := MakeGenesis(tmp)
	c := NewChain(gen, tmp, *seed, nil)
	c.SetupScene(DefaultScene())
	rec := NewRecorder(*out)
	defer rec.Close()
	rec.Reset("pure", map[string]any{})
	f, err := os.Open(*casesFile)
	if err != nil {
		panic(err)
	}
	defer f.Close()
	sc := bufio.NewScanner(f)
	sc.Buffer(make([]byte, 1<<20), 1<<26)
	n, errs := 0, 0
	for sc.Scan() {
		if len(sc.Bytes()) == 0 {
			continue
		}
		var pc PCase
		if err := json.Unmarshal(sc.Bytes(), &pc); err != nil {
			panic(err)
		}
		for k := 0; k < *draws; k++ {
			// the concrete values of a case are a function of (seed, class, draw) only, so a single case can be replayed
			h := fnv.New64a()
			h.Write(sc.Bytes())
			r := rand.New(rand.NewSource(*seed*1000003 + int64(h.Sum64()>>1) + int64(k)*7919))
			ev := runPureCase(c, r, pc)
			if ev != nil {
				ev.Args["case"] = string(sc.Bytes())
				ev.Args["draw"] = k
				rec.Line("Pure", 0, 0, -1, ev, map[string]any{})
				n++
				if !ev.OK {
					errs++
				}
			}
		}
	}
	fmt.Printf("STATS {\"calls\":%d,\"refused\":%d}\n", n, errs)
}

var magExp = map[string]int{"e0": 0, "e3": 3, "e6": 6, "e9": 9, "e12": 12, "e15": 15, "e18": 18, "e21": 21, "e24": 24}

func runPureCase(c *Chain, r *rand.Rand, pc PCase) (ev *Event) {
	ctx, _ := c.AdminCtx().CacheContext()
	a := c.App
	op := pc.S("op")
	kind := pc.S("kind")
	dA, dB := "uusdc", "uatom"
	// reserves: magnitude of the first asset, ratio to the second
	x := jitterInt(r, pow10(magExp[pc.S("mag")]))
	var y math.Int
	switch pc.S("ratio") {
	case "1:1":
		y = jitterInt(r, x)
	case "1:1e3":
		y = jitterInt(r, x.Mul(pow10(3)))
	case "1e3:1":
		y = jitterInt(r, x.Quo(pow10(3)).AddRaw(1))
	case "1:1e9":
		y = jitterInt(r, x.Mul(pow10(9)))
	default:
		y = jitterInt(r, x)
	}
	wA, wB := pc.I("wA"), pc.I("wB")
	if wA == 0 {
		wA, wB = 1, 1
	}
	fee := math.LegacyMustNewDecFromStr(pc.S("fee"))
	ext := math.LegacyOneDec()
	if pc.S("ext") != "" {
		ext = math.LegacyMustNewDecFromStr(pc.S("ext"))
	}
	shares := pow10(18).MulRaw(100)
	switch pc.S("supply") {
	case "small":
		shares = pow10(18)
	case "large":
		shares = pow10(24)
	}
	pool := ammtypes.Pool{PoolId: 9999, Address: ammtypes.NewPoolAddress(9999).String(), RebalanceTreasury: ammtypes.NewPoolRebalanceTreasury(9999).String(),
		PoolParams:  ammtypes.PoolParams{SwapFee: fee, UseOracle: kind == "oracle", FeeDenom: "uusdc"},
		TotalShares: sdk.NewCoin(ammtypes.GetPoolShareDenom(9999), shares),
		PoolAssets: []ammtypes.PoolAsset{
			{Token: sdk.NewCoin(dB, y), Weight: math.NewInt(wB), ExternalLiquidityRatio: ext},
			{Token: sdk.NewCoin(dA, x), Weight: math.NewInt(wA), ExternalLiquidityRatio: ext},
		},
		TotalWeight: math.NewInt(wA + wB)}
	params := a.AmmKeeper.GetParams(ctx)
	// oracle prices: pool price (y per x in value terms) deviated by pxdev
	pA, pB := math.LegacyOneDec(), math.LegacyOneDec()
	if kind == "oracle" {
		// choose prices so that the pool is balanced in value at weights wA:wB, then deviate B's price
		pA = math.LegacyMustNewDecFromStr("1")
		// value balance: x*pA/wA = y*pB/wB  => pB = x*pA*wB/(wA*y)   (per base unit; both 6 decimals in asset info)
		pB = math.LegacyNewDecFromInt(x).MulInt64(wB).QuoInt64(wA).Quo(math.LegacyNewDecFromInt(y))
		switch pc.S("pxdev") {
		case "+1%":
			pB = pB.Mul(math.LegacyMustNewDecFromStr("1.01"))
		case "-1%":
			pB = pB.Mul(math.LegacyMustNewDecFromStr("0.99"))
		case "+50%":
			pB = pB.Mul(math.LegacyMustNewDecFromStr("1.5"))
		case "-50%":
			pB = pB.Mul(math.LegacyMustNewDecFromStr("0.5"))
		case "x9": // far beyond the weight-distance threshold
			pB = pB.MulInt64(9)
		case "/9":
			pB = pB.QuoInt64(9)
		}
		if !pB.IsPositive() {
			return nil
		}
		now := uint64(ctx.BlockTime().Unix())
		a.OracleKeeper.SetPrice(ctx, oracletypes.Price{Asset: "USDC", Price: pA, Source: "elys", Provider: "x", Timestamp: now + 1, BlockHeight: uint64(ctx.BlockHeight())})
		a.OracleKeeper.SetPrice(ctx, oracletypes.Price{Asset: "ATOM", Price: pB, Source: "elys", Provider: "x", Timestamp: now + 1, BlockHeight: uint64(ctx.BlockHeight())})
	}
	din, dout := dA, dB
	rin, rout, win, wout := x, y, wA, wB
	if pc.S("dir") == "ba" {
		din, dout = dB, dA
		rin, rout, win, wout = y, x, wB, wA
	}
	sizeOf := func(base math.Int) math.Int {
		switch pc.S("size") {
		case "one":
			return math.OneInt()
		case "dust":
			return math.NewInt(int64(2 + r.Intn(20)))
		case "tiny":
			return jitterInt(r, base.QuoRaw(1_000_000).AddRaw(1))
		case "1%":
			return jitterInt(r, base.QuoRaw(100).AddRaw(1))
		case "30%":
			return jitterInt(r, base.MulRaw(3).QuoRaw(10).AddRaw(1))
		case "99.9%":
			return base.MulRaw(999).QuoRaw(1000)
		case "over":
			return base.MulRaw(3).QuoRaw(2).AddRaw(1)
		case "x10":
			return jitterInt(r, base.MulRaw(10))
		}
		return jitterInt(r, base.QuoRaw(100).AddRaw(1))
	}
	ev = newEvent("pure."+op, "")
	ev.Args = map[string]any{"kind": kind, "din": din, "dout": dout, "rin": rin.String(), "rout": rout.String(), "win": win, "wout": wout,
		"fee": ds(fee), "ext": ds(ext), "shares": shares.String(), "class": fmt.Sprintf("%v", map[string]any(pc)),
		"pin": ds(a.OracleKeeper.GetAssetPriceFromDenom(ctx, din)), "pout": ds(a.OracleKeeper.GetAssetPriceFromDenom(ctx, dout)),
		"treasury": "0"}
	defer func() {
		if rc := recover(); rc != nil {
			ev.OK = false
			ev.Log = truncate(fmt.Sprintf("panic: %v", rc), 200)
		}
	}()
	one := math.LegacyOneDec()
	switch op {
	case "swapIn":
		ain := sizeOf(rin)
		ev.Args["ain"] = ain.String()
		snap := staleSnapshot(pool, pc.S("snap"))
		out, _, _, bonus, _, err := pool.SwapOutAmtGivenIn(ctx, a.OracleKeeper, &snap, sdk.NewCoins(sdk.NewCoin(din, ain)), dout, fee, a.AccountedPoolKeeper, one, params)
		if err != nil {
			ev.OK, ev.Log = false, truncate(err.Error(), 200)
			return ev
		}
		ev.Resp["out"] = out.Amount.String()
		ev.Resp["bonus"] = ds(bonus)
	case "swapOut":
		aout := sizeOf(rout)
		ev.Args["aout"] = aout.String()
		snap := staleSnapshot(pool, pc.S("snap"))
		in, _, _, bonus, _, err := pool.SwapInAmtGivenOut(ctx, a.OracleKeeper, &snap, sdk.NewCoins(sdk.NewCoin(dout, aout)), din, fee, a.AccountedPoolKeeper, one, params)
		if err != nil {
			ev.OK, ev.Log = false, truncate(err.Error(), 200)
			return ev
		}
		ev.Resp["in"] = in.Amount.String()
		ev.Resp["bonus"] = ds(bonus)
	case "joinAll":
		// offer tokens at an arbitrary (not pool) ratio
		inA, inB := sizeOf(x), sizeOf(y)
		ev.Args["inA"], ev.Args["inB"] = inA.String(), inB.String()
		ev.Args["rA"], ev.Args["rB"] = x.String(), y.String()
		snap := staleSnapshot(pool, pc.S("snap"))
		joined, sh, _, _, err := pool.JoinPool(ctx, &snap, a.OracleKeeper, a.AccountedPoolKeeper, sdk.NewCoins(sdk.NewCoin(dA, inA), sdk.NewCoin(dB, inB)), params)
		if err != nil {
			ev.OK, ev.Log = false, truncate(err.Error(), 200)
			return ev
		}
		ev.Resp["shares"] = sh.String()
		ev.Resp["joinedA"], ev.Resp["joinedB"] = joined.AmountOf(dA).String(), joined.AmountOf(dB).String()
		ev.Resp["sharesAfter"] = pool.TotalShares.Amount.String()
	case "joinSingle":
		ain := sizeOf(rin)
		ev.Args["ain"] = ain.String()
		snap := staleSnapshot(pool, pc.S("snap"))
		joined, sh, _, bonus, err := pool.JoinPool(ctx, &snap, a.OracleKeeper, a.AccountedPoolKeeper, sdk.NewCoins(sdk.NewCoin(din, ain)), params)
		if err != nil {
			ev.OK, ev.Log = false, truncate(err.Error(), 200)
			return ev
		}
		ev.Resp["shares"] = sh.String()
		ev.Resp["joined"] = joined.AmountOf(din).String()
		ev.Resp["bonus"] = ds(bonus)
	case "exit", "exitSingle":
		var burn math.Int
		switch pc.S("size") {
		case "one":
			burn = math.OneInt()
		case "dust":
			burn = math.NewInt(int64(2 + r.Intn(1000)))
		case "half":
			burn = shares.QuoRaw(2)
		case "allbut1":
			burn = shares.SubRaw(1)
		case "all":
			burn = shares
		case "over":
			burn = shares.AddRaw(1)
		default:
			burn = jitterInt(r, shares.QuoRaw(100))
		}
		ev.Args["burn"] = burn.String()
		ev.Args["rA"], ev.Args["rB"] = x.String(), y.String()
		outDenom := ""
		if op == "exitSingle" {
			outDenom = dout
		}
		ev.Args["outDenom"] = outDenom
		coins, err := pool.ExitPool(ctx, a.OracleKeeper, a.AccountedPoolKeeper, burn, outDenom, params)
		if err != nil {
			ev.OK, ev.Log = false, truncate(err.Error(), 200)
			return ev
		}
		ev.Resp["outA"], ev.Resp["outB"] = coins.AmountOf(dA).String(), coins.AmountOf(dB).String()
		ev.Resp["sharesAfter"] = pool.TotalShares.Amount.String()
		ev.Resp["rAafter"], ev.Resp["rBafter"] = poolReserve(pool, dA).String(), poolReserve(pool, dB).String()
	default:
		return nil
	}
	return ev
}

// staleSnapshot returns the per-block snapshot handed to the pool functions: the live pool itself, or the pool as it was
// before earlier operations of the same block had grown / shrunk it by 30 %.
func staleSnapshot(pool ammtypes.Pool, how string) ammtypes.Pool {
	if how == "" || how == "live" {
		return pool
	}
	snap := pool
	snap.PoolAssets = append([]ammtypes.PoolAsset{}, pool.PoolAssets...)
	// not a uniform scaling: the first asset moved by 30 %, the share supply by about half of that - the pool as it was
	// before / after a single-sided operation, i.e. with a DIFFERENT share price than the live pool
	numA, numS, den := int64(70), int64(85), int64(100)
	if how == "larger" {
		numA, numS = 130, 114
	}
	if len(snap.PoolAssets) > 0 {
		snap.PoolAssets[0].Token.Amount = snap.PoolAssets[0].Token.Amount.MulRaw(numA).QuoRaw(den).AddRaw(1)
	}
	snap.TotalShares.Amount = snap.TotalShares.Amount.MulRaw(numS).QuoRaw(den).AddRaw(1)
	return snap
}

func poolReserve(p ammtypes.Pool, d string) math.Int {
	for _, a := range p.PoolAssets {
		if a.Token.Denom == d {
			return a.Token.Amount
		}
	}
	return math.ZeroInt()
}
