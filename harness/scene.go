//go:build verif

package main

import (
	estakingtypes "github.com/elys-network/elys/x/estaking/types"
	"fmt"

	"cosmossdk.io/math"
	sdk "github.com/cosmos/cosmos-sdk/types"
	banktypes "github.com/cosmos/cosmos-sdk/x/bank/types"
	minttypes "github.com/cosmos/cosmos-sdk/x/mint/types"

	ammtypes "github.com/elys-network/elys/x/amm/types"
	aptypes "github.com/elys-network/elys/x/assetprofile/types"
	burnertypes "github.com/elys-network/elys/x/burner/types"
	committypes "github.com/elys-network/elys/x/commitment/types"
	leveragelptypes "github.com/elys-network/elys/x/leveragelp/types"
	mctypes "github.com/elys-network/elys/x/masterchef/types"
	oracletypes "github.com/elys-network/elys/x/oracle/types"
	ptypes "github.com/elys-network/elys/x/parameter/types"
)

// Scene set-up: everything the default genesis lacks to make the DeFi modules usable,
// applied through real keepers on the admin context right after InitChain, identically
// on every replica.  (Pools, positions, orders etc. are then created by real signed
// transactions.)

type assetDef struct {
	Denom   string
	Display string
	Dec     uint64
	Price   string
}

var sceneAssets = []assetDef{
	{"uusdc", "USDC", 6, "1"},
	{"uatom", "ATOM", 6, "5"},
	{"uelys", "ELYS", 6, "3"},
	{"uusdt", "USDT", 6, "1"},
	{"ibc/B4314D0E670CB43C88A5DCA09F76E5E812BD831CC2FEC6E434C9E5A9D1F57953", "WBTC", 8, "60000"},
}

const denomWBTC = "ibc/B4314D0E670CB43C88A5DCA09F76E5E812BD831CC2FEC6E434C9E5A9D1F57953"

type SceneOpts struct {
	Users        int
	Lifetime     uint64 // oracle LifeTimeInBlocks
	Expiry       uint64 // oracle PriceExpiryTime (seconds)
	VestBlocks   int64  // eden vesting length in blocks
	MaxVestings  int64
	NoPrices     bool
	ExtraAssets  []assetDef
	LevPerBlock  int64
	UserFunds    string
	EdenPerYear  string // masterchef LP incentive (0 = none)
	StakeEdenPerYear string // estaking staker incentive (Eden per year; part of it goes to the provider reward account)
	BurnEpoch    string // burner epoch identifier ("" = the default, which matches no epoch)
	NoMetadata   []string // assets the scene registers NO bank denom metadata for (the burner must never touch them)
	Registry     bool   // project the parameter registry (extended specification) at every observation point
}

func DefaultScene() SceneOpts {
	return SceneOpts{Users: 4, Lifetime: 1_000_000, Expiry: 86400 * 365 * 10, VestBlocks: 10, MaxVestings: 3, UserFunds: "10000000000000"}
}

func (c *Chain) mint(ctx sdk.Context, addr sdk.AccAddress, coins sdk.Coins) {
	if err := c.App.BankKeeper.MintCoins(ctx, minttypes.ModuleName, coins); err != nil {
		panic(err)
	}
	if err := c.App.BankKeeper.SendCoinsFromModuleToAccount(ctx, minttypes.ModuleName, addr, coins); err != nil {
		panic(err)
	}
}

func (c *Chain) SetupScene(o SceneOpts) {
	c.initNames()
	c.Registry = o.Registry
	rec := c.Rec
	c.Rec = nil
	defer func() { c.Rec = rec }()
	// first (empty) block so that every module has run its begin/end blocker once
	c.NextBlock(5)
	ctx := c.AdminCtx()
	a := c.App
	funds, _ := math.NewIntFromString(o.UserFunds)
	names := []string{"feeder", "bot"}
	for i := 1; i <= o.Users; i++ {
		names = append(names, fmt.Sprintf("u%d", i))
		c.Users = append(c.Users, fmt.Sprintf("u%d", i))
	}
	assets := append([]assetDef{}, sceneAssets...)
	assets = append(assets, o.ExtraAssets...)
	for _, n := range names {
		addr := c.AddKey(n)
		var coins sdk.Coins
		for _, as := range assets {
			coins = coins.Add(sdk.NewCoin(as.Denom, funds))
		}
		c.mint(ctx, addr, coins)
	}
	// asset profile + oracle
	for _, as := range assets {
		a.AssetprofileKeeper.SetEntry(ctx, aptypes.Entry{BaseDenom: as.Denom, Denom: as.Denom, Decimals: as.Dec, DisplayName: as.Display,
			CommitEnabled: true, WithdrawEnabled: true, Authority: c.gov()})
		a.OracleKeeper.SetAssetInfo(ctx, oracletypes.AssetInfo{Denom: as.Denom, Display: as.Display, Decimal: as.Dec})
		if !o.NoPrices {
			a.OracleKeeper.SetPrice(ctx, oracletypes.Price{Asset: as.Display, Price: math.LegacyMustNewDecFromStr(as.Price), Source: "elys",
				Provider: c.Addr["feeder"].String(), Timestamp: uint64(ctx.BlockTime().Unix()), BlockHeight: uint64(ctx.BlockHeight())})
		}
	}
	// bank denom metadata as on a live chain (the burner only burns denoms that have metadata)
	for _, as := range assets {
		skip := false
		for _, nm := range o.NoMetadata {
			skip = skip || nm == as.Denom
		}
		if skip {
			continue
		}
		c.Listed = append(c.Listed, as.Denom)
		a.BankKeeper.SetDenomMetaData(ctx, banktypes.Metadata{Base: as.Denom, Display: as.Display, Name: as.Display, Symbol: as.Display,
			DenomUnits: []*banktypes.DenomUnit{{Denom: as.Denom, Exponent: 0}, {Denom: as.Display, Exponent: uint32(as.Dec)}}})
	}
	for _, d := range []string{ptypes.Eden, ptypes.EdenB} {
		a.AssetprofileKeeper.SetEntry(ctx, aptypes.Entry{BaseDenom: d, Denom: d, Decimals: 6, DisplayName: d, CommitEnabled: true, WithdrawEnabled: true, Authority: c.gov()})
	}
	a.OracleKeeper.SetPriceFeeder(ctx, oracletypes.PriceFeeder{Feeder: c.Addr["feeder"].String(), IsActive: true})
	op := a.OracleKeeper.GetParams(ctx)
	op.LifeTimeInBlocks = o.Lifetime
	op.PriceExpiryTime = o.Expiry
	a.OracleKeeper.SetParams(ctx, op)

	// amm: users may create pools; no creation fee games
	ap := a.AmmKeeper.GetParams(ctx)
	ap.AllowedPoolCreators = append(ap.AllowedPoolCreators, c.Addr["u1"].String())
	ap.BaseAssets = []string{"uusdc"}
	a.AmmKeeper.SetParams(ctx, ap)

	// commitment: short vesting schedule for Eden
	cp := a.CommitmentKeeper.GetParams(ctx)
	cp.VestingInfos = []committypes.VestingInfo{{BaseDenom: ptypes.Eden, VestingDenom: ptypes.Elys, NumBlocks: o.VestBlocks,
		VestNowFactor: math.NewInt(90), NumMaxVestings: o.MaxVestings}}
	cp.EnableVestNow = true
	a.CommitmentKeeper.SetParams(ctx, cp)

	if o.BurnEpoch != "" {
		bp := burnertypes.NewParams(o.BurnEpoch)
		a.BurnerKeeper.SetParams(ctx, &bp)
	}
	if o.LevPerBlock > 0 {
		lp := a.LeveragelpKeeper.GetParams(ctx)
		lp.NumberPerBlock = o.LevPerBlock
		a.LeveragelpKeeper.SetParams(ctx, &lp)
	}
	if o.StakeEdenPerYear != "" {
		ep := a.EstakingKeeper.GetParams(ctx)
		amt, _ := math.NewIntFromString(o.StakeEdenPerYear)
		ep.StakeIncentives = &estakingtypes.IncentiveInfo{EdenAmountPerYear: amt}
		a.EstakingKeeper.SetParams(ctx, ep)
	}
	if o.EdenPerYear != "" {
		mp := a.MasterchefKeeper.GetParams(ctx)
		amt, _ := math.NewIntFromString(o.EdenPerYear)
		if mp.LpIncentives == nil {
			mp.LpIncentives = &mctypes.IncentiveInfo{EdenAmountPerYear: amt}
		}
		mp.LpIncentives.EdenAmountPerYear = amt
		a.MasterchefKeeper.SetParams(ctx, mp)
	}
}

// CreatePoolMsg builds a MsgCreatePool by u1.
func (c *Chain) CreatePoolMsg(oracle bool, fee string, d1, d2 string, a1, a2 math.Int, w1, w2 int64) *ammtypes.MsgCreatePool {
	assets := []ammtypes.PoolAsset{
		{Token: sdk.NewCoin(d1, a1), Weight: math.NewInt(w1), ExternalLiquidityRatio: math.LegacyNewDec(1)},
		{Token: sdk.NewCoin(d2, a2), Weight: math.NewInt(w2), ExternalLiquidityRatio: math.LegacyNewDec(1)},
	}
	if assets[0].Token.Denom > assets[1].Token.Denom {
		assets[0], assets[1] = assets[1], assets[0]
	}
	return &ammtypes.MsgCreatePool{Sender: c.Addr["u1"].String(),
		PoolParams: ammtypes.PoolParams{UseOracle: oracle, SwapFee: math.LegacyMustNewDecFromStr(fee), FeeDenom: "uusdc"},
		PoolAssets: assets}
}

func (c *Chain) EnableLeverage(poolId uint64) error {
	_, err := c.Admin(&leveragelptypes.MsgAddPool{Authority: c.gov(),
		Pool: leveragelptypes.AddPool{AmmPoolId: poolId, LeverageMax: math.LegacyNewDec(10)}})
	return err
}
