//go:build verif

package main

import (
	"encoding/json"
	"time"

	"cosmossdk.io/math"
	abci "github.com/cometbft/cometbft/abci/types"
	cmted25519 "github.com/cometbft/cometbft/crypto/ed25519"
	cmttypes "github.com/cometbft/cometbft/types"
	codectypes "github.com/cosmos/cosmos-sdk/codec/types"
	cryptocodec "github.com/cosmos/cosmos-sdk/crypto/codec"
	"github.com/cosmos/cosmos-sdk/crypto/keys/secp256k1"
	sdk "github.com/cosmos/cosmos-sdk/types"
	authtypes "github.com/cosmos/cosmos-sdk/x/auth/types"
	banktypes "github.com/cosmos/cosmos-sdk/x/bank/types"
	stakingtypes "github.com/cosmos/cosmos-sdk/x/staking/types"
	ibctmtypes "github.com/cosmos/ibc-go/v8/modules/light-clients/07-tendermint"
	consumertypes "github.com/cosmos/interchain-security/v6/x/ccv/consumer/types"

	elysapp "github.com/elys-network/elys/app"
	atypes "github.com/elys-network/elys/x/assetprofile/types"
	ptypes "github.com/elys-network/elys/x/parameter/types"
)

// deterministicGenesis mirrors app.GenesisStateWithValSet (app/test_setup.go) with fixed keys
// and a fixed consensus-state timestamp, so that a run is a function of VERIF_SEED only.
func deterministicGenesis(a *elysapp.ElysApp) ([]byte, []byte) {
	valKey := cmted25519.GenPrivKeyFromSecret([]byte("elys-verif-validator"))
	validator := cmttypes.NewValidator(valKey.PubKey(), 1)
	valSet := cmttypes.NewValidatorSet([]*cmttypes.Validator{validator})

	senderPrivKey := secp256k1.GenPrivKeyFromSecret([]byte("elys-verif-genesis-account"))
	acc := authtypes.NewBaseAccountWithAddress(senderPrivKey.PubKey().Address().Bytes())
	balance := banktypes.Balance{Address: acc.GetAddress().String(), Coins: sdk.NewCoins(sdk.NewCoin(ptypes.Elys, math.NewInt(100000000000000)))}
	balances := []banktypes.Balance{balance}
	genesisState := elysapp.NewDefaultGenesisState(a, a.AppCodec())
	genAP := atypes.DefaultGenesis()
	genAP.EntryList = []atypes.Entry{{BaseDenom: ptypes.BaseCurrency, Denom: ptypes.BaseCurrency}}
	genesisState[atypes.ModuleName] = a.AppCodec().MustMarshalJSON(genAP)
	genAccs := []authtypes.GenesisAccount{acc}
	authGenesis := authtypes.NewGenesisState(authtypes.DefaultParams(), genAccs)
	genesisState[authtypes.ModuleName] = a.AppCodec().MustMarshalJSON(authGenesis)

	validators := make([]stakingtypes.Validator, 0, 1)
	delegations := make([]stakingtypes.Delegation, 0, 1)
	bondAmt := sdk.DefaultPowerReduction
	initValPowers := []abci.ValidatorUpdate{}
	for _, val := range valSet.Validators {
		pk, _ := cryptocodec.FromTmPubKeyInterface(val.PubKey)
		pkAny, _ := codectypes.NewAnyWithValue(pk)
		v := stakingtypes.Validator{
			OperatorAddress: sdk.ValAddress(val.Address).String(), ConsensusPubkey: pkAny, Jailed: false, Status: stakingtypes.Bonded,
			Tokens: bondAmt, DelegatorShares: math.LegacyOneDec(), Description: stakingtypes.Description{}, UnbondingHeight: int64(0),
			UnbondingTime: time.Unix(0, 0).UTC(),
			Commission:    stakingtypes.NewCommission(math.LegacyNewDecWithPrec(5, 2), math.LegacyNewDecWithPrec(10, 2), math.LegacyNewDecWithPrec(10, 2)),
			MinSelfDelegation: math.OneInt(),
		}
		validators = append(validators, v)
		delegations = append(delegations, stakingtypes.NewDelegation(genAccs[0].GetAddress().String(), sdk.ValAddress(val.Address).String(), math.LegacyOneDec()))
		pub, _ := val.ToProto()
		initValPowers = append(initValPowers, abci.ValidatorUpdate{Power: val.VotingPower, PubKey: pub.PubKey})
	}
	params := stakingtypes.DefaultParams()
	params.BondDenom = ptypes.Elys
	genesisState[stakingtypes.ModuleName] = a.AppCodec().MustMarshalJSON(stakingtypes.NewGenesisState(params, validators, delegations))

	totalSupply := sdk.NewCoins()
	for _, b := range balances {
		totalSupply = totalSupply.Add(b.Coins...)
	}
	totalSupply = totalSupply.Add(sdk.NewCoin(ptypes.Elys, bondAmt))
	balances = append(balances, banktypes.Balance{Address: authtypes.NewModuleAddress(stakingtypes.BondedPoolName).String(), Coins: sdk.Coins{sdk.NewCoin(ptypes.Elys, bondAmt)}})
	bankGenesis := banktypes.NewGenesisState(banktypes.DefaultGenesisState().Params, balances, totalSupply, []banktypes.Metadata{}, []banktypes.SendEnabled{})
	genesisState[banktypes.ModuleName] = a.AppCodec().MustMarshalJSON(bankGenesis)

	vals, err := cmttypes.PB2TM.ValidatorUpdates(initValPowers)
	if err != nil {
		panic(err)
	}
	cg := elysapp.CreateMinimalConsumerTestGenesis()
	cg.Provider.InitialValSet = initValPowers
	cg.Provider.ConsensusState = &ibctmtypes.ConsensusState{Timestamp: time.Unix(genesisUnix, 0).UTC(), Root: cg.Provider.ConsensusState.Root}
	cg.Provider.ConsensusState.NextValidatorsHash = cmttypes.NewValidatorSet(vals).Hash()
	cg.Params.Enabled = true
	genesisState[consumertypes.ModuleName] = a.AppCodec().MustMarshalJSON(cg)

	bz, err := json.Marshal(genesisState)
	if err != nil {
		panic(err)
	}
	return bz, valSet.Hash()
}
