//go:build verif

package main

import (
	"fmt"
	"strconv"
	"strings"

	"cosmossdk.io/math"
	sdk "github.com/cosmos/cosmos-sdk/types"
	authtypes "github.com/cosmos/cosmos-sdk/x/auth/types"
	banktypes "github.com/cosmos/cosmos-sdk/x/bank/types"

	ammtypes "github.com/elys-network/elys/x/amm/types"
	leveragelptypes "github.com/elys-network/elys/x/leveragelp/types"
	ptypes "github.com/elys-network/elys/x/parameter/types"
	perpetualtypes "github.com/elys-network/elys/x/perpetual/types"
	stablestaketypes "github.com/elys-network/elys/x/stablestake/types"
	tradeshieldtypes "github.com/elys-network/elys/x/tradeshield/types"
)

// The projection ElysApp -> abstract state of spec/elys/State.tla.  It is a plain
// structural copy of exported keeper getter results: amounts as decimal strings,
// LegacyDec as 18-digit mantissa strings, heights/times/ids as small ints or strings.
// Nothing here decides a property.

var moduleNames = []string{
	"fee_collector", "distribution", "interchainaccounts", "bonded_tokens_pool", "not_bonded_tokens_pool", "gov",
	"transfer", "feeibc", "cons_redistribute", "cons_to_send_to_provider", "mint",
	"commitment", "burner", "amm", "stablestake", "masterchef",
	"perpetual", "leveragelp", "tradeshield", "tier", "estaking", "accountedpool", "oracle", "tokenomics",
	"assetprofile", "parameter", "epochs", "transferhook",
}

func (c *Chain) initNames() {
	for _, m := range moduleNames {
		c.Names[authtypes.NewModuleAddress(m).String()] = "mod:" + m
	}
	for i := uint64(0); i <= 80; i++ {
		c.Names[leveragelptypes.GetPositionAddress(i).String()] = "pos:lev:" + u(i)
		c.Names[tradeshieldtypes.GetSpotOrderAddress(i).String()] = "esc:spot:" + u(i)
		c.Names[tradeshieldtypes.GetPerpOrderAddress(i).String()] = "esc:perp:" + u(i)
	}
	c.Names[sdk.AccAddress(make([]byte, 20)).String()] = "zero"
}

func u(i uint64) string  { return strconv.FormatUint(i, 10) }
func is(i math.Int) string {
	if i.IsNil() {
		return "0"
	}
	return i.String()
}
func ds(d math.LegacyDec) string {
	if d.IsNil() {
		return "0"
	}
	return d.BigInt().String()
}

func (c *Chain) name(addr string) string {
	if n, ok := c.Names[addr]; ok {
		return n
	}
	return addr
}

func coinsToMap(cs sdk.Coins) map[string]any {
	m := map[string]any{}
	for _, c := range cs {
		m[c.Denom] = c.Amount.String()
	}
	return m
}

func (c *Chain) Project(ctx sdk.Context) map[string]any {
	a := c.App
	st := map[string]any{}
	st["chain"] = map[string]any{"h": ctx.BlockHeight(), "t": ctx.BlockTime().Unix()}
	userNames := []any{}
	for _, n := range sortedKeys(c.Keys) { // accounts driven by private keys of the harness (everything else is protocol-owned)
		userNames = append(userNames, n)
	}
	st["users"] = userNames

	// ---- amm (first: assigns symbolic names of pool addresses)
	pools := map[string]any{}
	for _, p := range a.AmmKeeper.GetAllPool(ctx) {
		id := u(p.PoolId)
		c.Names[p.Address] = "pool:" + id
		c.Names[p.RebalanceTreasury] = "treasury:" + id
		c.Names[ammtypes.NewPoolRevenueAddress(p.PoolId).String()] = "revenue:" + id
		assets := map[string]any{}
		for _, pa := range p.PoolAssets {
			assets[pa.Token.Denom] = map[string]any{
				"amt": is(pa.Token.Amount), "weight": is(pa.Weight), "weightI": smallWeight(pa.Weight), "ext": ds(pa.ExternalLiquidityRatio)}
		}
		pools[id] = map[string]any{
			"addr": "pool:" + id, "treasury": "treasury:" + id, "revenue": "revenue:" + id,
			"useOracle": p.PoolParams.UseOracle, "swapFee": ds(p.PoolParams.SwapFee), "feeDenom": p.PoolParams.FeeDenom,
			"shares": is(p.TotalShares.Amount), "shareDenom": p.TotalShares.Denom, "totalWeight": is(p.TotalWeight), "assets": assets,
		}
	}
	dl := map[string]any{}
	for _, d := range a.AmmKeeper.GetAllDenomLiquidity(ctx) {
		dl[d.Denom] = is(d.Liquidity)
	}
	nq := len(a.AmmKeeper.GetAllSwapExactAmountInRequests(ctx)) + len(a.AmmKeeper.GetAllSwapExactAmountOutRequests(ctx))
	st["amm"] = map[string]any{"pools": pools, "denomLiq": dl, "queue": nq}

	// ---- masterchef / perpetual parameter addresses
	mcp := a.MasterchefKeeper.GetParams(ctx)
	if mcp.ProtocolRevenueAddress != "" {
		if _, ok := c.Names[mcp.ProtocolRevenueAddress]; !ok {
			c.Names[mcp.ProtocolRevenueAddress] = "protocolRevenue"
		}
	}
	pp := a.PerpetualKeeper.GetParams(ctx)
	if pp.BorrowInterestPaymentFundAddress != "" {
		if _, ok := c.Names[pp.BorrowInterestPaymentFundAddress]; !ok {
			c.Names[pp.BorrowInterestPaymentFundAddress] = "perpFund"
		}
	}

	// ---- bank
	bank := map[string]any{}
	a.BankKeeper.IterateAllBalances(ctx, func(addr sdk.AccAddress, coin sdk.Coin) bool {
		n := c.name(addr.String())
		m, ok := bank[n].(map[string]any)
		if !ok {
			m = map[string]any{}
			bank[n] = m
		}
		m[coin.Denom] = coin.Amount.String()
		return false
	})
	st["bank"] = bank
	supply := map[string]any{}
	a.BankKeeper.IterateTotalSupply(ctx, func(coin sdk.Coin) bool {
		supply[coin.Denom] = coin.Amount.String()
		return false
	})
	st["supply"] = supply

	// ---- commitment
	cp := a.CommitmentKeeper.GetParams(ctx)
	accts := map[string]any{}
	for _, cm := range a.CommitmentKeeper.GetAllCommitments(ctx) {
		committed := map[string]any{}
		for _, ct := range cm.CommittedTokens {
			lk := []any{}
			for _, l := range ct.Lockups {
				lk = append(lk, map[string]any{"amt": is(l.Amount), "until": int64(l.UnlockTimestamp)})
			}
			committed[ct.Denom] = map[string]any{"amt": is(ct.Amount), "lockups": lk}
		}
		vest := []any{}
		for _, v := range cm.VestingTokens {
			vest = append(vest, map[string]any{"denom": v.Denom, "total": is(v.TotalAmount), "claimed": is(v.ClaimedAmount),
				"start": v.StartBlock, "num": v.NumBlocks})
		}
		nm := c.name(cm.Creator)
		kind := "user"
		if strings.HasPrefix(nm, "pos:lev:") {
			kind = "levpos"
		} else if strings.HasPrefix(nm, "mod:") {
			kind = "module"
		}
		accts[nm] = map[string]any{"committed": committed, "claimed": coinsToMap(cm.Claimed), "vesting": vest, "kind": kind}
	}
	vinfo := map[string]any{}
	for _, vi := range cp.VestingInfos {
		vinfo[vi.BaseDenom] = map[string]any{"vestingDenom": vi.VestingDenom, "numBlocks": vi.NumBlocks,
			"nowFactor": is(vi.VestNowFactor), "maxVestings": vi.NumMaxVestings}
	}
	st["commit"] = map[string]any{"total": coinsToMap(cp.TotalCommitted), "acct": accts, "vestInfo": vinfo, "enableVestNow": cp.EnableVestNow}

	// ---- stablestake
	sp := a.StablestakeKeeper.GetParams(ctx)
	debts := map[string]any{}
	for _, d := range a.StablestakeKeeper.GetAllDebts(ctx) {
		debts[c.name(d.Address)] = map[string]any{"borrowed": is(d.Borrowed), "stacked": is(d.InterestStacked), "paid": is(d.InterestPaid),
			"lastTime": int64(d.LastInterestCalcTime), "lastBlock": int64(d.LastInterestCalcBlock)}
	}
	st["stable"] = map[string]any{"totalValue": is(sp.TotalValue), "depositDenom": a.StablestakeKeeper.GetDepositDenom(ctx),
		"shareDenom": stablestaketypes.GetShareDenom(), "interestRate": ds(sp.InterestRate), "storedRate": ds(sp.RedemptionRate),
		"rate": ds(a.StablestakeKeeper.GetRedemptionRate(ctx)), "debts": debts,
		// the parameters of the utilisation rule (strings: governance may set them to huge values)
		"rateMax": ds(sp.InterestRateMax), "rateMin": ds(sp.InterestRateMin), "rateInc": ds(sp.InterestRateIncrease), "rateDec": ds(sp.InterestRateDecrease),
		"hgf": ds(sp.HealthGainFactor), "epochLength": fmt.Sprintf("%d", sp.EpochLength)}

	// ---- leveragelp
	lp := a.LeveragelpKeeper.GetParams(ctx)
	lpools := map[string]any{}
	for _, p := range a.LeveragelpKeeper.GetAllPools(ctx) {
		lpools[u(p.AmmPoolId)] = map[string]any{"leveragedLp": is(p.LeveragedLpAmount), "health": ds(p.Health),
			"leverageMax": ds(p.LeverageMax), "maxRatio": ds(p.MaxLeveragelpRatio)}
	}
	lpos := map[string]any{}
	pctx, _ := ctx.CacheContext() // probes run on a throw-away cache context (the real health functions accrue interest)
	for pid, lpv := range lpools {
		id, _ := strconv.ParseUint(pid, 10, 64)
		price := "-1"
		if ap, ok := a.AmmKeeper.GetPool(pctx, id); ok {
			if pr, err := probeLpPrice(c, pctx, ap); err == nil {
				price = ds(pr)
			}
		}
		lpv.(map[string]any)["lpPrice"] = price
	}
	for _, p := range a.LeveragelpKeeper.GetAllPositions(ctx) {
		key := c.name(p.Address) + "/" + u(p.Id)
		lpos[key] = map[string]any{"owner": c.name(p.Address), "id": u(p.Id), "pool": u(p.AmmPoolId),
			"posAddr": c.name(p.GetPositionAddress().String()), "lp": is(p.LeveragedLpAmount),
			"collateral": is(p.Collateral.Amount), "collDenom": p.Collateral.Denom, "liab": is(p.Liabilities),
			"health": ds(p.PositionHealth), "stopLoss": ds(p.StopLossPrice), "probeHealth": probeLevHealth(c, pctx, p)}
	}
	st["lev"] = map[string]any{"pools": lpools, "positions": lpos, "openCount": int64(a.LeveragelpKeeper.GetOpenPositionCount(ctx)),
		"safetyFactor": ds(lp.SafetyFactor), "numberPerBlock": lp.NumberPerBlock}

	// ---- perpetual
	ppools := map[string]any{}
	side := func(as []perpetualtypes.PoolAsset) map[string]any {
		m := map[string]any{}
		for _, x := range as {
			m[x.AssetDenom] = map[string]any{"custody": is(x.Custody), "liab": is(x.Liabilities), "collateral": is(x.Collateral),
				"tpCustody": is(x.TakeProfitCustody), "tpLiab": is(x.TakeProfitLiabilities)}
		}
		return m
	}
	for _, p := range a.PerpetualKeeper.GetAllPools(ctx) {
		ppools[u(p.AmmPoolId)] = map[string]any{"long": side(p.PoolAssetsLong), "short": side(p.PoolAssetsShort),
			"health": ds(p.Health), "fees": coinsToMap(sdk.NewCoins(p.FeesCollected...)),
			"borrowRate": ds(p.BorrowInterestRate), "fundingRate": ds(p.FundingRate)}
	}
	mtps := map[string]any{}
	for _, m := range a.PerpetualKeeper.GetAllMTPs(ctx) {
		key := c.name(m.Address) + "/" + u(m.Id)
		sd := "long"
		if m.Position == perpetualtypes.Position_SHORT {
			sd = "short"
		}
		mtps[key] = map[string]any{"owner": c.name(m.Address), "id": u(m.Id), "pool": u(m.AmmPoolId), "side": sd,
			"collAsset": m.CollateralAsset, "custAsset": m.CustodyAsset, "liabAsset": m.LiabilitiesAsset, "tradingAsset": m.TradingAsset,
			"custody": is(m.Custody), "liab": is(m.Liabilities), "collateral": is(m.Collateral),
			"unpaid": is(m.BorrowInterestUnpaidLiability), "paidCustody": is(m.BorrowInterestPaidCustody),
			"fundPaid": is(m.FundingFeePaidCustody), "fundRecv": is(m.FundingFeeReceivedCustody),
			"tpCustody": is(m.TakeProfitCustody), "tpLiab": is(m.TakeProfitLiabilities),
			"health": ds(m.MtpHealth), "stopLoss": ds(m.StopLossPrice), "takeProfit": ds(m.TakeProfitPrice), "openPrice": ds(m.OpenPrice),
			"probeHealth": probeMtpHealth(c, pctx, m), "plainHealth": plainMtpHealth(c, pctx, m)}
	}
	st["perp"] = map[string]any{"pools": ppools, "mtps": mtps, "openCount": int64(a.PerpetualKeeper.GetOpenMTPCount(ctx)),
		"safetyFactor": ds(pp.SafetyFactor), "tpFlag": pp.EnableTakeProfitCustodyLiabilities, "fixedFunding": ds(pp.FixedFundingRate),
		"borrowMax": ds(pp.BorrowInterestRateMax), "borrowMin": ds(pp.BorrowInterestRateMin), "borrowInc": ds(pp.BorrowInterestRateIncrease),
		"borrowDec": ds(pp.BorrowInterestRateDecrease), "borrowHgf": ds(pp.HealthGainFactor)}

	// ---- accounted pool
	acc := map[string]any{}
	for _, ap := range a.AccountedPoolKeeper.GetAllAccountedPool(ctx) {
		acc[u(ap.PoolId)] = map[string]any{"total": coinsListMap(ap.TotalTokens), "nonAmm": coinsListMap(ap.NonAmmPoolTokens)}
	}
	st["acc"] = acc

	// ---- masterchef
	pinfo := map[string]any{}
	for _, pi := range a.MasterchefKeeper.GetAllPoolInfos(ctx) {
		pinfo[u(pi.PoolId)] = map[string]any{"multiplier": ds(pi.Multiplier), "edenEnabled": pi.EnableEdenRewards,
			"rewardDenoms": strs(pi.ExternalRewardDenoms)}
	}
	aps := map[string]any{}
	for _, ri := range a.MasterchefKeeper.GetAllPoolRewardInfos(ctx) {
		aps[u(ri.PoolId)+"|"+ri.RewardDenom] = map[string]any{"pool": u(ri.PoolId), "denom": ri.RewardDenom, "acc": ds(ri.PoolAccRewardPerShare)}
	}
	users := map[string]any{}
	for _, ui := range a.MasterchefKeeper.GetAllUserRewardInfos(ctx) {
		users[u(ui.PoolId)+"|"+ui.RewardDenom+"|"+c.name(ui.User)] = map[string]any{"pool": u(ui.PoolId), "denom": ui.RewardDenom,
			"user": c.name(ui.User), "pending": ds(ui.RewardPending), "debt": ds(ui.RewardDebt)}
	}
	inc := []any{}
	for _, e := range a.MasterchefKeeper.GetAllExternalIncentives(ctx) {
		inc = append(inc, map[string]any{"id": u(e.Id), "denom": e.RewardDenom, "pool": u(e.PoolId), "from": e.FromBlock, "to": e.ToBlock, "perBlock": is(e.AmountPerBlock)})
	}
	st["mc"] = map[string]any{"poolInfo": pinfo, "accPerShare": aps, "user": users, "incentives": inc,
		"lpPortion": ds(mcp.RewardPortionForLps), "stakerPortion": ds(mcp.RewardPortionForStakers), "stablePoolId": u(stablestaketypes.PoolId)}

	// ---- oracle
	op := a.OracleKeeper.GetParams(ctx)
	prices := []any{}
	for _, p := range a.OracleKeeper.GetAllPrice(ctx) {
		prices = append(prices, map[string]any{"asset": p.Asset, "source": p.Source, "ts": int64(p.Timestamp), "height": int64(p.BlockHeight),
			"price": ds(p.Price), "provider": c.name(p.Provider)})
	}
	feeders := map[string]any{}
	for _, f := range a.OracleKeeper.GetAllPriceFeeder(ctx) {
		feeders[c.name(f.Feeder)] = f.IsActive
	}
	infos := map[string]any{}
	lookupDenom := map[string]any{}
	for _, ai := range a.OracleKeeper.GetAllAssetInfo(ctx) {
		infos[ai.Denom] = map[string]any{"display": ai.Display, "decimal": int64(ai.Decimal)}
	}
	probeDenoms := map[string]bool{ptypes.BaseCurrency: true, ptypes.ATOM: true, ptypes.Elys: true}
	for d := range infos {
		probeDenoms[d] = true
	}
	for _, d := range c.ProbeDenoms {
		probeDenoms[d] = true
	}
	for d := range probeDenoms {
		lookupDenom[d] = ds(a.OracleKeeper.GetAssetPriceFromDenom(ctx, d))
	}
	lookup := map[string]any{}
	probeAssets := map[string]bool{}
	for _, ai := range a.OracleKeeper.GetAllAssetInfo(ctx) {
		probeAssets[ai.Display] = true
	}
	for _, x := range c.ProbeAssets {
		probeAssets[x] = true
	}
	for x := range probeAssets {
		p, found := a.OracleKeeper.GetAssetPrice(ctx, x)
		if found {
			lookup[x] = map[string]any{"found": true, "asset": p.Asset, "source": p.Source, "ts": int64(p.Timestamp), "price": ds(p.Price)}
		} else {
			lookup[x] = map[string]any{"found": false, "asset": "", "source": "", "ts": int64(0), "price": "0"}
		}
	}
	st["oracle"] = map[string]any{"prices": prices, "feeders": feeders, "assetInfo": infos, "expiry": u(op.PriceExpiryTime),
		"lifetime": u(op.LifeTimeInBlocks), "lookup": lookup, "lookupDenom": lookupDenom} // (numbers that governance may set beyond 32 bits travel as strings)

	// ---- tradeshield
	spot := map[string]any{}
	for _, o := range a.TradeshieldKeeper.GetAllPendingSpotOrder(ctx) {
		spot[u(o.OrderId)] = map[string]any{"id": u(o.OrderId), "owner": c.name(o.OwnerAddress), "type": o.OrderType.String(),
			"base": o.OrderPrice.BaseDenom, "quote": o.OrderPrice.QuoteDenom, "rate": ds(o.OrderPrice.Rate),
			"denom": o.OrderAmount.Denom, "amount": is(o.OrderAmount.Amount), "target": o.OrderTargetDenom,
			"escrow": c.name(o.GetOrderAddress().String()), "status": o.Status.String(),
			"marketPrice": probeDec(func() (math.LegacyDec, error) {
				return a.TradeshieldKeeper.GetAssetPriceFromDenomInToDenomOut(pctx, o.OrderPrice.BaseDenom, o.OrderPrice.QuoteDenom)
			})}
	}
	perpo := map[string]any{}
	for _, o := range a.TradeshieldKeeper.GetAllPendingPerpetualOrder(ctx) {
		perpo[u(o.OrderId)] = map[string]any{"id": u(o.OrderId), "owner": c.name(o.OwnerAddress), "type": o.PerpetualOrderType.String(),
			"side": o.Position.String(), "trigAsset": o.TriggerPrice.TradingAssetDenom, "trigRate": ds(o.TriggerPrice.Rate),
			"denom": o.Collateral.Denom, "amount": is(o.Collateral.Amount), "tradingAsset": o.TradingAsset, "leverage": ds(o.Leverage),
			"pool": u(o.PoolId), "positionId": u(o.PositionId), "escrow": c.name(o.GetOrderAddress().String()), "status": o.Status.String(),
			"marketPrice": probeDec(func() (math.LegacyDec, error) { return a.PerpetualKeeper.GetAssetPrice(pctx, o.TradingAsset) })}
	}
	st["ts"] = map[string]any{"spot": spot, "perp": perpo}

	// ---- epochs clock and burner configuration (extended specification)
	eps := map[string]any{}
	for _, ei := range a.EpochsKeeper.AllEpochInfos(ctx) {
		eps[ei.Identifier] = map[string]any{"num": ei.CurrentEpoch, "cur": ei.CurrentEpochStartTime.Unix(), "duration": int64(ei.Duration.Seconds()),
			"started": ei.EpochCountingStarted, "start": ei.StartTime.Unix()}
	}
	st["epochs"] = eps
	bd := []any{}
	a.BankKeeper.IterateAllDenomMetaData(ctx, func(md banktypes.Metadata) bool {
		bd = append(bd, md.Base)
		return false
	})
	listed := []any{}
	for _, d := range c.Listed {
		listed = append(listed, d)
	}
	st["burner"] = map[string]any{"epoch": a.BurnerKeeper.GetParams(ctx).EpochIdentifier, "denoms": bd, "listed": listed}
	if c.Registry {
		st["params"] = c.projectParams(ctx)
	}
	return st
}

// probeDec evaluates a real price function on the observed state; "-1" when it errors or panics.
func probeDec(f func() (math.LegacyDec, error)) (out string) {
	defer func() {
		if r := recover(); r != nil {
			out = "-1"
		}
	}()
	d, err := f()
	if err != nil {
		return "-1"
	}
	return ds(d)
}

func probeLpPrice(c *Chain, ctx sdk.Context, ap ammtypes.Pool) (d math.LegacyDec, err error) {
	defer func() {
		if r := recover(); r != nil {
			err = fmt.Errorf("panic %v", r)
		}
	}()
	return ap.LpTokenPrice(ctx, c.App.OracleKeeper, c.App.AccountedPoolKeeper)
}

func probeLevHealth(c *Chain, ctx sdk.Context, p leveragelptypes.Position) (out string) {
	defer func() {
		if r := recover(); r != nil {
			out = "-1"
		}
	}()
	cc, _ := ctx.CacheContext()
	h, err := c.App.LeveragelpKeeper.GetPositionHealth(cc, p)
	if err != nil {
		return "-1"
	}
	return ds(h)
}

func probeMtpHealth(c *Chain, ctx sdk.Context, m perpetualtypes.MTP) (out string) {
	defer func() {
		if r := recover(); r != nil {
			out = "-1"
		}
	}()
	cc, _ := ctx.CacheContext()
	ap, ok := c.App.AmmKeeper.GetPool(cc, m.AmmPoolId)
	if !ok {
		return "-1"
	}
	// interest and funding that have accrued since the position was last touched count (C10: "apart from interest and
	// funding that had already accrued"): settle them on the throw-away context with the real settlement functions first
	if pool, found := c.App.PerpetualKeeper.GetPool(cc, m.AmmPoolId); found {
		c.App.PerpetualKeeper.UpdateMTPBorrowInterestUnpaidLiability(cc, &m)
		if _, err := c.App.PerpetualKeeper.SettleMTPBorrowInterestUnpaidLiability(cc, &m, &pool, ap); err != nil {
			return "-1"
		}
		if err := c.App.PerpetualKeeper.SettleFunding(cc, &m, &pool, ap); err != nil {
			return "-1"
		}
	}
	h, err := c.App.PerpetualKeeper.GetMTPHealth(cc, m, ap, "uusdc")
	if err != nil {
		return "-1"
	}
	return ds(h)
}

// plainMtpHealth: the real health function on the position exactly as stored (unpaid interest counts as a liability, nothing
// is settled): what "an open leaves the position with health above the safety factor" is measured with.
func plainMtpHealth(c *Chain, ctx sdk.Context, m perpetualtypes.MTP) (out string) {
	defer func() {
		if r := recover(); r != nil {
			out = "-1"
		}
	}()
	cc, _ := ctx.CacheContext()
	ap, ok := c.App.AmmKeeper.GetPool(cc, m.AmmPoolId)
	if !ok {
		return "-1"
	}
	h, err := c.App.PerpetualKeeper.GetMTPHealth(cc, m, ap, "uusdc")
	if err != nil {
		return "-1"
	}
	return ds(h)
}

// smallWeight returns the pool weight reduced by the 2^30 guarantee factor of amm weights when it fits an int (0 otherwise).
func smallWeight(w math.Int) int64 {
	f := math.NewInt(1 << 30)
	if w.Mod(f).IsZero() {
		w = w.Quo(f)
	}
	if w.IsInt64() && w.Int64() < 1_000_000 {
		return w.Int64()
	}
	return 0
}

func coinsListMap(cs []sdk.Coin) map[string]any {
	m := map[string]any{}
	for _, c := range cs {
		m[c.Denom] = is(c.Amount)
	}
	return m
}

func strs(xs []string) []any {
	out := []any{}
	for _, x := range xs {
		out = append(out, x)
	}
	return out
}

var _ = fmt.Sprintf
var _ = banktypes.ModuleName
