----------------------------- MODULE VestingInd -----------------------------
(***************************************************************************)
(* Unbounded companion of MC_vesting (C14): ONE vesting entry with the      *)
(* operators of spec/elys/Vesting.tla (VestedAt, Releasable, CancelCut)     *)
(* over ARBITRARY integer totals, schedule lengths and block heights,       *)
(* checked as an inductive invariant with Apalache:                         *)
(*   - what was released never exceeds the entry's (remaining) total,       *)
(*   - tokens released + tokens returned by cancels + tokens still          *)
(*     outstanding = tokens put in (nothing is created or lost),            *)
(*   - the released amount only grows and is what was paid out,             *)
(*   - a claim made once the schedule has elapsed releases everything.      *)
(* A partial cancel may leave the reduced schedule BEHIND what was already  *)
(* released (the entry then waits): the implementation's behaviour after    *)
(* repair 3a7d8c0, and the reason `released <= vested` is NOT an invariant. *)
(***************************************************************************)
EXTENDS Integers

VARIABLES
  \* @type: Int;
  put,        \* tokens put into the entry when it was created
  \* @type: Int;
  total,      \* the entry's total (reduced by cancels)
  \* @type: Int;
  num,        \* schedule length in blocks (0: vests at once)
  \* @type: Int;
  start,
  \* @type: Int;
  claimed,    \* released so far
  \* @type: Int;
  now,
  \* @type: Int;
  paid,       \* liquid tokens paid out to the owner
  \* @type: Int;
  returned,   \* tokens given back by cancels
  \* @type: Bool;
  full        \* a claim was made after the schedule had elapsed

Elapsed == IF now - start > num THEN num ELSE now - start
Vested == IF num <= 0 THEN total ELSE (total * Elapsed) \div num
Releasable == IF Vested - claimed > 0 THEN Vested - claimed ELSE 0

TypeOK == /\ put \in Int /\ total \in Int /\ num \in Int /\ start \in Int /\ claimed \in Int /\ now \in Int
          /\ paid \in Int /\ returned \in Int /\ full \in BOOLEAN

Inv ==
  /\ TypeOK
  /\ num >= 0 /\ start <= now /\ total >= 0
  /\ 0 <= claimed /\ claimed <= total
  /\ paid = claimed /\ returned >= 0
  /\ paid + returned + (total - claimed) = put
  /\ full => claimed = total

Init ==
  /\ put \in Nat /\ total = put /\ num \in Nat
  /\ start \in Nat /\ now = start
  /\ claimed = 0 /\ paid = 0 /\ returned = 0 /\ full = FALSE

Tick(n) ==
  /\ n > 0 /\ now' = now + n
  /\ UNCHANGED <<put, total, num, start, claimed, paid, returned, full>>

Claim ==
  /\ claimed' = claimed + Releasable
  /\ paid' = paid + Releasable
  /\ full' = (full \/ now - start >= num)
  /\ UNCHANGED <<put, total, num, start, now, returned>>

\* MsgCancelVest on this entry: at most its not-yet-released part (CancelCut)
Cancel(c) ==
  /\ c > 0 /\ c <= total - claimed
  /\ total' = total - c
  /\ returned' = returned + c
  /\ UNCHANGED <<put, num, start, claimed, now, paid, full>>

Next ==
  \/ \E n \in Int : Tick(n)
  \/ Claim
  \/ \E c \in Int : Cancel(c)

IndInit == Inv
=============================================================================
