----------------------------- MODULE RewardsInd ------------------------------
(***************************************************************************)
(* Unbounded companion of MC_rewards (C13): one distribution step of the    *)
(* masterchef accumulator over ARBITRARY integers - accumulator, debts,     *)
(* share balances of two holders and the standing provider, the amount r    *)
(* moved into the module - with the implementation's fixed point (1e18) and *)
(* truncation.  Apalache checks the ACTION invariant that TLC found on the  *)
(* small model: what the step credits to all holders together (in 1e-18     *)
(* mantissa units) is at most r * 1e18 plus one unit per holder.            *)
(***************************************************************************)
EXTENDS Integers

VARIABLES
  \* @type: Int;
  acc,
  \* @type: Int;
  sa,
  \* @type: Int;
  sb,
  \* @type: Int;
  sc,
  \* @type: Int;
  da,
  \* @type: Int;
  db,
  \* @type: Int;
  dc,
  \* @type: Int;
  bal,
  \* @type: Int;
  r

E == 1000000000000000000
T == sa + sb + sc
Cl(a, s, d) == ((a * s) - d) \div E

TypeOK == acc \in Int /\ sa \in Int /\ sb \in Int /\ sc \in Int /\ da \in Int /\ db \in Int /\ dc \in Int /\ bal \in Int /\ r \in Int

Inv ==
  /\ TypeOK
  /\ acc >= 0 /\ sa >= 0 /\ sb >= 0 /\ sc > 0 /\ bal >= 0 /\ r >= 0
  /\ da >= 0 /\ db >= 0 /\ dc >= 0
  /\ da <= acc * sa /\ db <= acc * sb /\ dc <= acc * sc      \* a debt never exceeds the accumulated entitlement

Init == acc = 0 /\ sa = 0 /\ sb = 0 /\ sc = 1 /\ da = 0 /\ db = 0 /\ dc = 0 /\ bal = 0 /\ r = 0

Distribute(x) ==
  /\ x > 0
  /\ r' = x
  /\ bal' = bal + x
  /\ acc' = acc + (x * E * E) \div T
  /\ UNCHANGED <<sa, sb, sc, da, db, dc>>

Next == \E x \in Int : Distribute(x)
IndInit == Inv

Credited == (Cl(acc', sa, da) - Cl(acc, sa, da)) + (Cl(acc', sb, db) - Cl(acc, sb, db)) + (Cl(acc', sc, dc) - Cl(acc, sc, dc))
CreditBound == Credited <= r' * E + 3
=============================================================================
