------------------------------ MODULE VaultInd -------------------------------
(***************************************************************************)
(* Unbounded companion of the vault part of MC_ledger / MC_positions (C06,  *)
(* C07): x/stablestake's vault over ARBITRARY integer amounts - total value *)
(* tv, cash, share supply S and the loans outstanding (principal + booked   *)
(* interest, all borrowers together).  Apalache checks as an inductive      *)
(* invariant that  tv = cash + loans  (C06), that the redemption rate is    *)
(* at least one, and as an ACTION invariant that no step - deposit,         *)
(* withdrawal, loan, interest, repayment - lowers what a share redeems for  *)
(* (C07: tv' * S >= tv * S', i.e. tv'/S' >= tv/S), with the truncating      *)
(* conversions of the implementation.                                       *)
(***************************************************************************)
EXTENDS Integers

VARIABLES
  \* @type: Int;
  tv,
  \* @type: Int;
  cash,
  \* @type: Int;
  S,
  \* @type: Int;
  loans

TypeOK == tv \in Int /\ cash \in Int /\ S \in Int /\ loans \in Int

Inv ==
  /\ TypeOK
  /\ cash >= 0 /\ loans >= 0 /\ S >= 0
  /\ tv = cash + loans                    \* C06
  /\ tv >= S                              \* redemption rate >= 1
  /\ S = 0 => tv = 0

Init == tv = 0 /\ cash = 0 /\ S = 0 /\ loans = 0

\* MsgBond: shares = amount / rate, truncated (first deposit: one share per token)
Bond(a) ==
  LET m == IF S = 0 THEN a ELSE (a * S) \div tv IN
  /\ a > 0
  /\ tv' = tv + a /\ cash' = cash + a /\ S' = S + m
  /\ UNCHANGED loans

\* MsgUnbond of k shares: pays k * rate, truncated, from cash
Unbond(k) ==
  LET pay == (k * tv) \div S IN
  /\ k > 0 /\ k <= S /\ pay <= cash
  /\ tv' = tv - pay /\ cash' = cash - pay /\ S' = S - k
  /\ UNCHANGED loans

\* Borrow: refused above 90 % of the vault's value
Borrow(b) ==
  /\ b > 0 /\ b <= cash
  /\ (loans + b) * 10 <= tv * 9
  /\ cash' = cash - b /\ loans' = loans + b
  /\ UNCHANGED <<tv, S>>

\* interest booked on the loans raises the vault's value
Accrue(i) ==
  /\ i > 0 /\ loans > 0
  /\ loans' = loans + i /\ tv' = tv + i
  /\ UNCHANGED <<cash, S>>

Repay(r) ==
  /\ r > 0 /\ r <= loans
  /\ loans' = loans - r /\ cash' = cash + r
  /\ UNCHANGED <<tv, S>>

Next ==
  \/ \E a \in Int : Bond(a)
  \/ \E k \in Int : Unbond(k)
  \/ \E b \in Int : Borrow(b)
  \/ \E i \in Int : Accrue(i)
  \/ \E r \in Int : Repay(r)

IndInit == Inv
\* C07 as an action invariant: what one share redeems for never falls
Fair == tv' * S >= tv * S'
=============================================================================
