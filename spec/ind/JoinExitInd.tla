----------------------------- MODULE JoinExitInd -----------------------------
(***************************************************************************)
(* Unbounded companion of the pricing lattice (C05) for ALL-ASSET joins and *)
(* exits of a two-asset pool: reserves x, y and share supply S over         *)
(* ARBITRARY positive integers, with the implementation's arithmetic        *)
(* (pool_calc_join_pool_no_swap_shares.go MaximalExactRatioJoin,            *)
(* calc_exit_pool.go): an 18-digit share ratio that is truncated, shares    *)
(* truncated, the amount used of the non-limiting asset rounded UP, exit    *)
(* payouts truncated.  Apalache checks the ACTION invariant that no join    *)
(* and no exit lowers what a share of the other providers is backed by, in  *)
(* either asset:  x' * S >= x * S'  and  y' * S >= y * S'.                  *)
(***************************************************************************)
EXTENDS Integers

VARIABLES
  \* @type: Int;
  x,
  \* @type: Int;
  y,
  \* @type: Int;
  S

E == 1000000000000000000
TypeOK == x \in Int /\ y \in Int /\ S \in Int
Inv == TypeOK /\ x > 0 /\ y > 0 /\ S > 0
Init == x = 1 /\ y = 1 /\ S = E

JoinAll(a, b) ==
  LET ra == (a * E) \div x                     \* share ratios as 18-digit mantissas, truncated (QuoInt)
      rb == (b * E) \div y
      rho == IF ra < rb THEN ra ELSE rb
      m == (rho * S) \div E                    \* shares: truncated
      ua == IF ra = rho THEN a ELSE ((rho * x) + E - 1) \div E     \* the limiting asset goes in whole, the other one rounded up
      ub == IF rb = rho THEN b ELSE ((rho * y) + E - 1) \div E
  IN /\ a > 0 /\ b > 0 /\ m > 0
     /\ x' = x + ua /\ y' = y + ub /\ S' = S + m

Exit(k) ==
  LET r == (k * E) \div S                      \* share-out ratio, truncated
      ox == (r * x) \div E                     \* payouts: truncated
      oy == (r * y) \div E
  IN /\ k > 0 /\ k < S /\ ox < x /\ oy < y
     /\ x' = x - ox /\ y' = y - oy /\ S' = S - k

Next == (\E a, b \in Int : JoinAll(a, b)) \/ (\E k \in Int : Exit(k))
IndInit == Inv
NoDilution == x' * S >= x * S' /\ y' * S >= y * S'
=============================================================================
