------------------------------- MODULE SwapInd -------------------------------
(***************************************************************************)
(* Unbounded companion of the pricing lattice (C03) for the equal-weight    *)
(* constant-product pool: reserves x, y over ARBITRARY positive integers, a *)
(* swap fee in basis points, exact-in swaps that truncate the output and    *)
(* exact-out swaps that round the input up.  Apalache checks the ACTION     *)
(* invariant  x' * y' >= x * y : no swap, of any size and in either form,   *)
(* lowers the product of the reserves - which is what makes round trips and *)
(* split trades unprofitable (induction over the steps of a history).       *)
(* (Unequal weights need real powers and stay with the enumerated lattice;  *)
(* the implementation's 18-digit decimal evaluation is the recorded known   *)
(* finding C03-dec-rounding-large-reserves, not modelled here.)             *)
(***************************************************************************)
EXTENDS Integers

VARIABLES
  \* @type: Int;
  x,
  \* @type: Int;
  y,
  \* @type: Int;
  fee      \* basis points, 0 .. 9999

TypeOK == x \in Int /\ y \in Int /\ fee \in Int
Inv == TypeOK /\ x > 0 /\ y > 0 /\ fee >= 0 /\ fee < 10000
Init == x = 1 /\ y = 1 /\ fee = 0

\* exact-in, a units of the x asset: the fee is taken off the input (truncated in the pool's favour), the output is truncated
SwapInXY(a) ==
  LET eff == (a * (10000 - fee)) \div 10000
      out == (y * eff) \div (x + eff) IN
  /\ a > 0 /\ out < y
  /\ x' = x + a /\ y' = y - out /\ UNCHANGED fee

SwapInYX(a) ==
  LET eff == (a * (10000 - fee)) \div 10000
      out == (x * eff) \div (y + eff) IN
  /\ a > 0 /\ out < x
  /\ y' = y + a /\ x' = x - out /\ UNCHANGED fee

\* exact-out, o units of the y asset: the input before fee is rounded up, then grossed up by the fee and rounded up again
SwapOutXY(o) ==
  LET net == ((x * o) + (y - o) - 1) \div (y - o)
      inn == ((net * 10000) + (10000 - fee) - 1) \div (10000 - fee) IN
  /\ o > 0 /\ o < y
  /\ x' = x + inn /\ y' = y - o /\ UNCHANGED fee

Next ==
  \/ \E a \in Int : SwapInXY(a) \/ SwapInYX(a)
  \/ \E o \in Int : SwapOutXY(o)

IndInit == Inv
KNeverFalls == x' * y' >= x * y
=============================================================================
