---------------------------- MODULE BranchesInd -----------------------------
(***************************************************************************)
(* Unbounded companion of MC_branches (C19 / C18): the transaction-branch   *)
(* discipline as an INDUCTIVE invariant checked with Apalache              *)
(* (Init => Inv, Inv /\ Next => Inv').  Replicas process an agreed chain of *)
(* transactions over a registry with a duplicate check; a transaction's     *)
(* branch is written only when all its messages succeed; simulations are    *)
(* never written; restarts empty the process memory.  With memory filled    *)
(* from committed reads only, every replica's store is the canonical store  *)
(* of its height (ghost ref) and its cache is coherent - hence agreement -  *)
(* whatever the interleaving.  IndInvBad (reads on a branch fill the cache) *)
(* is NOT inductive: Apalache returns the discarded-branch counterexample.  *)
(***************************************************************************)
EXTENDS Integers, FiniteSets

CONSTANTS
  \* @type: Set(Str);
  Replicas,
  \* @type: Set(Str);
  Keys,
  \* @type: Int;
  MaxHeight,
  \* @type: Bool;
  CacheOnBranch

VARIABLES
  \* @type: Int -> { shape: Str, k: Str };
  chain,
  \* @type: Int -> Set(Str);
  ref,
  \* @type: Str -> Set(Str);
  store,
  \* @type: Str -> Set(Str);
  cache,
  \* @type: Str -> Int;
  height

CInit == Replicas = {"A", "B", "C"} /\ Keys = {"k1", "k2", "k3"} /\ MaxHeight = 4 /\ CacheOnBranch = FALSE
CInitBad == Replicas = {"A", "B", "C"} /\ Keys = {"k1", "k2", "k3"} /\ MaxHeight = 4 /\ CacheOnBranch = TRUE

Shapes == {"single", "twin", "poison"}
Heights == 0..MaxHeight

\* one create(k) message on a branch: [br, ca, ok]
\* @type: ({ br: Set(Str), ca: Set(Str), ok: Bool }, Str) => { br: Set(Str), ca: Set(Str), ok: Bool };
Create(st, k) ==
  IF ~st.ok THEN st
  ELSE LET hit == k \in st.ca
           found == hit \/ k \in st.br
           ca1 == IF ~hit /\ k \in st.br /\ CacheOnBranch THEN st.ca \union {k} ELSE st.ca IN
       IF found THEN [br |-> st.br, ca |-> ca1, ok |-> FALSE]
       ELSE [br |-> st.br \union {k}, ca |-> ca1 \ {k}, ok |-> TRUE]

\* @type: (Set(Str), Set(Str), { shape: Str, k: Str }) => { br: Set(Str), ca: Set(Str), ok: Bool };
RunTx(s, c, tx) ==
  LET s0 == [br |-> s, ca |-> c, ok |-> TRUE]
      s1 == Create(s0, tx.k) IN
  IF tx.shape = "single" THEN s1
  ELSE IF tx.shape = "twin" THEN Create(s1, tx.k)
  ELSE [br |-> s1.br, ca |-> s1.ca, ok |-> FALSE]          \* poison: the last message always fails

\* the canonical store after a transaction (what a replica without any memory computes)
\* @type: (Set(Str), { shape: Str, k: Str }) => Set(Str);
Step(s, tx) == IF tx.shape = "single" /\ tx.k \notin s THEN s \union {tx.k} ELSE s

TypeOK ==
  /\ chain \in [1..MaxHeight -> [shape : Shapes, k : Keys]]
  /\ ref \in [Heights -> SUBSET Keys]
  /\ store \in [Replicas -> SUBSET Keys]
  /\ cache \in [Replicas -> SUBSET Keys]
  /\ height \in [Replicas -> Heights]

RefOK == ref[0] = {} /\ \A h \in 1..MaxHeight : ref[h] = Step(ref[h - 1], chain[h])

Inv ==
  /\ TypeOK
  /\ RefOK
  /\ \A r \in Replicas : store[r] = ref[height[r]] /\ cache[r] \subseteq store[r]

\* what C19 asks for follows from Inv: replicas at one height have one store
Agreement == \A r1, r2 \in Replicas : height[r1] = height[r2] => store[r1] = store[r2]

Init ==
  /\ chain \in [1..MaxHeight -> [shape : Shapes, k : Keys]]
  /\ ref \in [Heights -> SUBSET Keys] /\ RefOK
  /\ store = [r \in Replicas |-> {}]
  /\ cache = [r \in Replicas |-> {}]
  /\ height = [r \in Replicas |-> 0]

IndInit ==
  /\ chain \in [1..MaxHeight -> [shape : Shapes, k : Keys]]
  /\ ref \in [Heights -> SUBSET Keys]
  /\ store \in [Replicas -> SUBSET Keys]
  /\ cache \in [Replicas -> SUBSET Keys]
  /\ height \in [Replicas -> Heights]
  /\ Inv

Process(r) ==
  /\ height[r] < MaxHeight
  /\ LET res == RunTx(store[r], cache[r], chain[height[r] + 1]) IN
       /\ store' = [store EXCEPT ![r] = IF res.ok THEN res.br ELSE store[r]]
       /\ cache' = [cache EXCEPT ![r] = res.ca]
  /\ height' = [height EXCEPT ![r] = height[r] + 1]
  /\ UNCHANGED <<chain, ref>>

Simulate(r) ==
  /\ \E sh \in Shapes, k \in Keys : cache' = [cache EXCEPT ![r] = RunTx(store[r], cache[r], [shape |-> sh, k |-> k]).ca]
  /\ UNCHANGED <<chain, ref, store, height>>

Restart(r) == cache' = [cache EXCEPT ![r] = {}] /\ UNCHANGED <<chain, ref, store, height>>

Next == \E r \in Replicas : Process(r) \/ Simulate(r) \/ Restart(r)
=============================================================================
