----------------------------- MODULE EscrowInd ------------------------------
(***************************************************************************)
(* Unbounded companion of MC_orders (C20): the escrow discipline of         *)
(* x/tradeshield's pending orders over ARBITRARY integer amounts, checked   *)
(* as an inductive invariant with Apalache (Init => Inv, Inv /\ Next =>     *)
(* Inv').  Ids are handed out by a counter that only grows (what seed       *)
(* C20-h breaks); every pending order has its own escrow account holding    *)
(* exactly its amount; only the owner cancels; an execution moves the       *)
(* escrow either back to the owner (spot: the swap is then the owner's own  *)
(* request) or into a position, or - when the open fails - does nothing.    *)
(***************************************************************************)
EXTENDS Integers, FiniteSets

CONSTANTS
  \* @type: Set(Str);
  Users,
  \* @type: Int;
  MaxId

VARIABLES
  \* @type: Str -> Int;
  wallet,
  \* @type: Int -> Int;
  escrow,
  \* @type: Set(Int);
  pending,
  \* @type: Int -> Str;
  owner,
  \* @type: Int -> Int;
  amount,
  \* @type: Int;
  next,
  \* @type: Int;
  positions

Ids == 1..MaxId

CInit ==
  /\ Users = {"u1", "u2", "u3"}
  /\ MaxId = 6

TypeOK ==
  /\ wallet \in [Users -> Int]
  /\ escrow \in [Ids -> Int]
  /\ pending \in SUBSET Ids
  /\ owner \in [Ids -> Users]
  /\ amount \in [Ids -> Int]
  /\ next \in 1..(MaxId + 1)
  /\ positions \in Int

\* C20: every pending order is backed by exactly its amount in its own escrow; an escrow without a pending order is empty
Inv ==
  /\ TypeOK
  /\ \A u \in Users : wallet[u] >= 0
  /\ positions >= 0
  /\ \A i \in Ids : i \in pending => (i < next /\ amount[i] > 0 /\ escrow[i] = amount[i])
  /\ \A i \in Ids : i \notin pending => escrow[i] = 0

Init ==
  /\ wallet \in [Users -> Nat]
  /\ escrow = [i \in Ids |-> 0]
  /\ pending = {}
  /\ owner \in [Ids -> Users]
  /\ amount = [i \in Ids |-> 0]
  /\ next = 1
  /\ positions = 0

Create(u, a) ==
  /\ next <= MaxId /\ a > 0 /\ wallet[u] >= a
  /\ wallet' = [wallet EXCEPT ![u] = @ - a]
  /\ escrow' = [escrow EXCEPT ![next] = @ + a]
  /\ pending' = pending \cup {next}
  /\ owner' = [owner EXCEPT ![next] = u]
  /\ amount' = [amount EXCEPT ![next] = a]
  /\ next' = next + 1
  /\ UNCHANGED positions

\* anybody may ask; only the owner's request has an effect
Cancel(u, i) ==
  /\ i \in pending
  /\ IF owner[i] = u
       THEN /\ wallet' = [wallet EXCEPT ![u] = @ + escrow[i]]
            /\ escrow' = [escrow EXCEPT ![i] = 0]
            /\ pending' = pending \ {i}
       ELSE UNCHANGED <<wallet, escrow, pending>>
  /\ UNCHANGED <<owner, amount, next, positions>>

\* permissionless execution of a triggered order: spot (funds back to the owner, who then swaps), perpetual (funds into a
\* position) or a failed open (no effect at all)
Execute(i, kind) ==
  /\ i \in pending
  /\ \/ /\ kind = "spot"
        /\ wallet' = [wallet EXCEPT ![owner[i]] = @ + escrow[i]]
        /\ escrow' = [escrow EXCEPT ![i] = 0]
        /\ pending' = pending \ {i}
        /\ UNCHANGED positions
     \/ /\ kind = "perp"
        /\ positions' = positions + escrow[i]
        /\ escrow' = [escrow EXCEPT ![i] = 0]
        /\ pending' = pending \ {i}
        /\ UNCHANGED wallet
     \/ /\ kind = "failed"
        /\ UNCHANGED <<wallet, escrow, pending, positions>>
  /\ UNCHANGED <<owner, amount, next>>

Next ==
  \/ \E u \in Users, a \in Int : Create(u, a)
  \/ \E u \in Users, i \in Ids : Cancel(u, i)
  \/ \E i \in Ids, kind \in {"spot", "perp", "failed"} : Execute(i, kind)

\* the inductive step starts from ANY state satisfying Inv
IndInit == Inv
=============================================================================
