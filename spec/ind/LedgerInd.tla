------------------------------ MODULE LedgerInd ------------------------------
(***************************************************************************)
(* Unbounded companion of MC_positions for the LINEAR ledger invariants of  *)
(* the contract layer (C01 C02 C08 C09 C11 C12) over ARBITRARY integer      *)
(* amounts: one oracle pool (usdc / atom), one liquidity provider, one      *)
(* leveraged-LP position with its own address, longs in the perpetual pool. *)
(* The actions are those of MC_positions with the amounts left free (what   *)
(* the pricing functions return is irrelevant to these invariants: any      *)
(* positive amounts keep them), Apalache checks them as an inductive        *)
(* invariant.                                                               *)
(***************************************************************************)
EXTENDS Integers

VARIABLES
  \* @type: Int;
  rU,      \* pool reserve usdc (pool record)
  \* @type: Int;
  rA,      \* pool reserve atom
  \* @type: Int;
  bU,      \* bank balance of the pool address, usdc
  \* @type: Int;
  bA,
  \* @type: Int;
  liqU,    \* DenomLiquidity usdc (one pool: equals its reserve)
  \* @type: Int;
  liqA,
  \* @type: Int;
  S,       \* pool.TotalShares
  \* @type: Int;
  sup,     \* bank supply of the share denom
  \* @type: Int;
  cus,     \* share balance of the commitment module (custody)
  \* @type: Int;
  cLp,     \* shares committed by the liquidity provider
  \* @type: Int;
  cPos,    \* shares committed at the position address
  \* @type: Int;
  tot,     \* commitment Params.TotalCommitted of the share denom
  \* @type: Int;
  levTot,  \* leveragelp Pool.LeveragedLpAmount
  \* @type: Int;
  posLp,   \* Position.LeveragedLpAmount (0: no position)
  \* @type: Int;
  custA,   \* perpetual pool: custody of longs (atom)
  \* @type: Int;
  liabU,   \* perpetual pool: liabilities of longs (usdc)
  \* @type: Int;
  sumCust, \* sum over the open MTPs
  \* @type: Int;
  sumLiab,
  \* @type: Int;
  accU,    \* accounted pool totals
  \* @type: Int;
  accA


TypeOK == /\ rU \in Int /\ rA \in Int /\ bU \in Int /\ bA \in Int /\ liqU \in Int /\ liqA \in Int /\ S \in Int /\ sup \in Int /\ cus \in Int
          /\ cLp \in Int /\ cPos \in Int /\ tot \in Int /\ levTot \in Int /\ posLp \in Int /\ custA \in Int /\ liabU \in Int
          /\ sumCust \in Int /\ sumLiab \in Int /\ accU \in Int /\ accA \in Int

Inv ==
  /\ TypeOK
  /\ rU >= 0 /\ rA >= 0 /\ cLp >= 0 /\ cPos >= 0 /\ custA >= 0 /\ liabU >= 0
  /\ rU = bU /\ rA = bA /\ liqU = rU /\ liqA = rA                      \* C01
  /\ S = sup /\ sup = cus /\ cus = cLp + cPos                          \* C02
  /\ tot = cLp + cPos                                                  \* C12
  /\ levTot = posLp /\ posLp = cPos                                    \* C08
  /\ custA = sumCust /\ liabU = sumLiab /\ custA <= rA                 \* C09
  /\ accU = rU + liabU /\ accA = rA - custA                            \* C11

Init ==
  /\ rU = 0 /\ rA = 0 /\ bU = 0 /\ bA = 0 /\ liqU = 0 /\ liqA = 0 /\ S = 0 /\ sup = 0 /\ cus = 0 /\ cLp = 0 /\ cPos = 0 /\ tot = 0
  /\ levTot = 0 /\ posLp = 0 /\ custA = 0 /\ liabU = 0 /\ sumCust = 0 /\ sumLiab = 0 /\ accU = 0 /\ accA = 0

\* a join of (u, a) minting m shares, by the provider or - for a leveraged open - from the position address
Join(u, a, m, lev) ==
  /\ u >= 0 /\ a >= 0 /\ u + a > 0 /\ m > 0
  /\ rU' = rU + u /\ bU' = bU + u /\ liqU' = liqU + u /\ accU' = accU + u
  /\ rA' = rA + a /\ bA' = bA + a /\ liqA' = liqA + a /\ accA' = accA + a
  /\ S' = S + m /\ sup' = sup + m /\ cus' = cus + m /\ tot' = tot + m
  /\ IF lev THEN /\ cPos' = cPos + m /\ posLp' = posLp + m /\ levTot' = levTot + m /\ UNCHANGED cLp
            ELSE /\ cLp' = cLp + m /\ UNCHANGED <<cPos, posLp, levTot>>
  /\ UNCHANGED <<custA, liabU, sumCust, sumLiab>>

\* an exit of k shares paying (u, a), by the provider or - close / liquidation - from the position address
Exit(u, a, k, lev) ==
  /\ u >= 0 /\ a >= 0 /\ k > 0 /\ u <= rU /\ a <= rA - custA
  /\ (IF lev THEN k <= cPos ELSE k <= cLp)
  /\ rU' = rU - u /\ bU' = bU - u /\ liqU' = liqU - u /\ accU' = accU - u
  /\ rA' = rA - a /\ bA' = bA - a /\ liqA' = liqA - a /\ accA' = accA - a
  /\ S' = S - k /\ sup' = sup - k /\ cus' = cus - k /\ tot' = tot - k
  /\ IF lev THEN /\ cPos' = cPos - k /\ posLp' = posLp - k /\ levTot' = levTot - k /\ UNCHANGED cLp
            ELSE /\ cLp' = cLp - k /\ UNCHANGED <<cPos, posLp, levTot>>
  /\ UNCHANGED <<custA, liabU, sumCust, sumLiab>>

\* a swap moves tokens between a trader and the pool (either direction), never touching custody backing
Swap(du, da) ==
  /\ rU + du >= 0 /\ rA + da >= custA
  /\ rU' = rU + du /\ bU' = bU + du /\ liqU' = liqU + du /\ accU' = accU + du
  /\ rA' = rA + da /\ bA' = bA + da /\ liqA' = liqA + da /\ accA' = accA + da
  /\ UNCHANGED <<S, sup, cus, cLp, cPos, tot, levTot, posLp, custA, liabU, sumCust, sumLiab>>

\* perpetual open of a long: collateral c into the pool, custody k and liabilities l are booked, the hook refreshes the accounted pool
PerpOpen(c, k, l) ==
  /\ c > 0 /\ k > 0 /\ l >= 0 /\ custA + k <= rA
  /\ rU' = rU + c /\ bU' = bU + c /\ liqU' = liqU + c
  /\ custA' = custA + k /\ sumCust' = sumCust + k /\ liabU' = liabU + l /\ sumLiab' = sumLiab + l
  /\ accU' = rU' + liabU' /\ accA' = rA - custA'
  /\ UNCHANGED <<rA, bA, liqA, S, sup, cus, cLp, cPos, tot, levTot, posLp>>

\* perpetual close: custody k released, liabilities l repaid out of it, the pool pays p to the owner
PerpClose(k, l, p) ==
  /\ k > 0 /\ k <= custA /\ l >= 0 /\ l <= liabU /\ p >= 0 /\ p <= rU
  /\ rU' = rU - p /\ bU' = bU - p /\ liqU' = liqU - p
  /\ custA' = custA - k /\ sumCust' = sumCust - k /\ liabU' = liabU - l /\ sumLiab' = sumLiab - l
  /\ accU' = rU' + liabU' /\ accA' = rA - custA'
  /\ UNCHANGED <<rA, bA, liqA, S, sup, cus, cLp, cPos, tot, levTot, posLp>>

Next ==
  \/ \E u, a, m \in Int, lev \in BOOLEAN : Join(u, a, m, lev)
  \/ \E u, a, k \in Int, lev \in BOOLEAN : Exit(u, a, k, lev)
  \/ \E du, da \in Int : Swap(du, da)
  \/ \E c, k, l \in Int : PerpOpen(c, k, l)
  \/ \E k, l, p \in Int : PerpClose(k, l, p)

IndInit == Inv
=============================================================================
