------------------------------- MODULE Vesting ------------------------------
(***************************************************************************)
(* C14 — the vesting sub-machine of x/commitment as a deterministic        *)
(* specification: the post-state of every vest / claim / cancel / vest-now *)
(* is a FUNCTION of the pre-state and the message, so a trace step         *)
(* conforms iff the observed post-state equals that function's value.      *)
(*                                                                         *)
(* An account's vesting list is a sequence of entries                      *)
(*     [denom, total, claimed, start, num]                                 *)
(* (denom released, amount put in, amount released so far, start height,   *)
(* schedule length in blocks), oldest first, exactly as the code stores    *)
(* it.  The same operators are evaluated over TLC integers by the          *)
(* exhaustive model spec/mc/MC_vesting.tla and over arbitrary-precision    *)
(* numbers on traces of the real chain.                                     *)
(***************************************************************************)
EXTENDS Events

IMin(a, b) == IF a < b THEN a ELSE b
IMax(a, b) == IF a < b THEN b ELSE a

\* amount of entry v unlocked at block height h by the linear block schedule; a schedule of length 0 has elapsed at once
VestedAt(v, h) ==
  IF v.num <= 0 THEN v.total
  ELSE (v.total ** N(IMin(IMax(h - v.start, 0), v.num))) // N(v.num)

\* what a claim at height h releases from entry v: never negative (a partial cancel can leave the reduced schedule
\* behind what was already released; the entry then simply waits until the schedule has caught up)
Releasable(v, h)   == Max0(VestedAt(v, h) -- v.claimed)
ClaimEntry(v, h)   == [v EXCEPT !.claimed = @ ++ Releasable(v, h)]
\* fully released entries are dropped
ClaimPost(V, h)    == SelectSeq([i \in DOMAIN V |-> ClaimEntry(V[i], h)], LAMBDA v : v.claimed # v.total)
ClaimPay(V, h, d)  == SumOver({i \in DOMAIN V : V[i].denom = d}, LAMBDA i : Releasable(V[i], h))
VestDenoms(V)      == {V[i].denom : i \in DOMAIN V}
Outstanding(V)     == SumOver(DOMAIN V, LAMBDA i : V[i].total -- V[i].claimed)

\* MsgCancelVest(x): entries are reduced newest first by at most their not-yet-released part
Cancellable(v)     == v.denom = "uelys" /\ v.num # 0 /\ v.total # Zero
CancelCut(v, rem)  == IF Cancellable(v) THEN MinN(rem, v.total -- v.claimed) ELSE Zero
\* R[i] = amount still to cancel after the entries Len(V) .. i+1 have been processed
CancelRem(V, x) ==
  LET n == Len(V)
      R[i \in 0..n] == IF i = n THEN x ELSE R[i + 1] -- CancelCut(V[i + 1], R[i + 1])
  IN R
CancelPost(V, x) ==
  LET R == CancelRem(V, x)
      W == [i \in DOMAIN V |-> [V[i] EXCEPT !.total = @ -- CancelCut(V[i], R[i])]]
  IN SelectSeq(W, LAMBDA v : v.claimed \prec v.total)
CancelFits(V, x)   == CancelRem(V, x)[0] = Zero

VestEntry(inf, x, h) == [denom |-> inf.vestingDenom, total |-> x, claimed |-> Zero, start |-> h, num |-> inf.numBlocks]

-----------------------------------------------------------------------------
(* Ghost ledger per account: Eden put into vesting, tokens released, Eden returned by cancels. *)
VestGhostInit(s) ==
  [a \in {b \in CommitAccts(s) : Vesting(s, b) # << >>} |-> [in |-> Outstanding(Vesting(s, a)), out |-> Zero, back |-> Zero]]
VGet(gv, a) == IF a \in DOMAIN gv THEN gv[a] ELSE [in |-> Zero, out |-> Zero, back |-> Zero]
VestGhostNext(k, e, s, t, gv) ==
  IF ~(k = "Tx" /\ e.ok /\ e.name \in {"commitment.MsgVest", "commitment.MsgVestLiquid", "commitment.MsgClaimVesting", "commitment.MsgCancelVest"})
    THEN gv
  ELSE LET u == e.sender
           old == VGet(gv, u)
           new == IF e.name \in {"commitment.MsgVest", "commitment.MsgVestLiquid"} THEN [old EXCEPT !.in = @ ++ e.args.amt]
                  ELSE IF e.name = "commitment.MsgClaimVesting"
                    THEN [old EXCEPT !.out = @ ++ SumOver(VestDenoms(Vesting(s, u)), LAMBDA d : DBal(s, t, u, d))]
                  ELSE [old EXCEPT !.back = @ ++ (Claimed(t, u, "ueden") -- Claimed(s, u, "ueden"))]
       IN [a \in DOMAIN gv \cup {u} |-> IF a = u THEN new ELSE gv[a]]

\* tokens released + Eden returned + still outstanding = Eden put into vesting
InvC14(s, gv) ==
  LET badSum == {a \in DOMAIN gv : gv[a].out ++ gv[a].back ++ Outstanding(Vesting(s, a)) # gv[a].in}
      badEnt == {a \in CommitAccts(s) : \E i \in DOMAIN Vesting(s, a) :
                    LET v == Vesting(s, a)[i] IN v.claimed \prec Zero \/ ~(v.claimed \prec v.total) \/ v.num < 0}
  IN { Chk("C14", "C14.inv.released_plus_returned_plus_outstanding_eq_vested", DOMAIN gv # {}, badSum = {},
           IF badSum = {} THEN "" ELSE ToString({<<a, gv[a], Outstanding(Vesting(s, a))>> : a \in badSum})),
       Chk("C14", "C14.inv.released_so_far_below_total", \E a \in CommitAccts(s) : Vesting(s, a) # << >>, badEnt = {}, Bad(badEnt)) }

-----------------------------------------------------------------------------
C14StepChecks(k, e, s, t, gv) ==
  LET h == t.chain.h
      as == CommitAccts(s) \cup CommitAccts(t)
      u == e.sender
      V0 == Vesting(s, u)  V1 == Vesting(t, u)
      vestMsg == k = "Tx" /\ e.ok /\ e.name \in {"commitment.MsgVest", "commitment.MsgVestLiquid", "commitment.MsgClaimVesting", "commitment.MsgCancelVest"}
      \* (at the start of its provider epoch estaking claims and re-vests the Eden of the provider reward account in the begin blocker:
      \* the protocol acting for its own module account)
      providerEpoch(a) == k = "Begin" /\ a = "mod:cons_to_send_to_provider"
      badFrame == {a \in as : Vesting(t, a) # Vesting(s, a) /\ ~(vestMsg /\ a = u) /\ ~providerEpoch(a)}
      HasInfo(d) == d \in DOMAIN s.commit.vestInfo
  IN
  { Chk("C14", "C14.step.vesting_entries_change_only_by_owner_vest_claim_cancel",
        \E a \in as : Vesting(s, a) # << >> \/ Vesting(t, a) # << >>, badFrame = {}, Bad(badFrame)) }
  \cup
  (IF IsTx(k, e, "commitment.MsgClaimVesting") THEN
     \* (a transaction rejected before its messages ran - bad sequence, unpayable fee - is not a claim attempt)
     { Chk("C14", "C14.step.claim_always_succeeds", e.stage = "msgs", e.stage = "msgs" => e.ok, e.log) }
   ELSE {})
  \cup
  (IF TxOK(k, e, "commitment.MsgClaimVesting") THEN
     { Chk("C14", "C14.step.claim_releases_exactly_the_linear_schedule", V0 # << >>, V1 = ClaimPost(V0, h),
           IF V1 = ClaimPost(V0, h) THEN "" ELSE ToString(<<h, V0, V1>>)),
       Chk("C14", "C14.step.claim_pays_exactly_what_was_released", V0 # << >>,
           \A d \in VestDenoms(V0) \cup {"uelys"} : DBal(s, t, u, d) = ClaimPay(V0, h, d), ""),
       Chk("C14", "C14.step.claim_leaves_claimable_eden_alone", TRUE, Claimed(t, u, "ueden") = Claimed(s, u, "ueden"), "") }
   ELSE {})
  \cup
  (IF TxOK(k, e, "commitment.MsgVest") \/ TxOK(k, e, "commitment.MsgVestLiquid") THEN
     LET d == e.args.denom  x == e.args.amt  liquid == e.name = "commitment.MsgVestLiquid" IN
     { Chk("C14", "C14.step.vest_appends_one_entry_for_the_amount", TRUE,
           /\ HasInfo(d)
           /\ V1 = Append(V0, VestEntry(s.commit.vestInfo[d], x, h))
           /\ Len(V0) < s.commit.vestInfo[d].maxVestings, ""),
       Chk("C14", "C14.step.vest_takes_exactly_the_amount", TRUE,
           IF liquid THEN /\ Claimed(t, u, d) = Claimed(s, u, d)
                          /\ DBal(s, t, u, d) = Zero -- x /\ DBal(s, t, "mod:commitment", d) = x
           ELSE /\ x \preceq Claimed(s, u, d)
                /\ Claimed(t, u, d) = Claimed(s, u, d) -- x, "") }
   ELSE {})
  \cup
  (IF TxOK(k, e, "commitment.MsgCancelVest") THEN
     LET x == e.args.amt IN
     { Chk("C14", "C14.step.cancel_reduces_newest_first_within_unreleased", TRUE, CancelFits(V0, x) /\ V1 = CancelPost(V0, x),
           IF V1 = CancelPost(V0, x) THEN "" ELSE ToString(<<x, V0, V1>>)),
       Chk("C14", "C14.step.cancel_returns_exactly_the_cancelled_eden", TRUE,
           /\ Claimed(t, u, "ueden") = Claimed(s, u, "ueden") ++ x
           /\ Outstanding(V0) -- Outstanding(V1) = x
           /\ \A d \in VestDenoms(V0) \cup {"uelys"} : DBal(s, t, u, d) = Zero, "") }
   ELSE {})
  \cup
  (IF TxOK(k, e, "commitment.MsgVestNow") THEN
     LET d == e.args.denom  x == e.args.amt IN
     { Chk("C14", "C14.step.vest_now_pays_amount_divided_by_factor", TRUE,
           /\ HasInfo(d) /\ s.commit.enableVestNow
           /\ s.commit.vestInfo[d].nowFactor \succ Zero
           /\ DBal(s, t, u, s.commit.vestInfo[d].vestingDenom) = x // s.commit.vestInfo[d].nowFactor
           /\ Claimed(t, u, d) = Claimed(s, u, d) -- x
           /\ V1 = V0, "") }
   ELSE {})
  \cup
  \* delta form of the conservation law, for the acting account
  (IF vestMsg THEN
     { Chk("C14", "C14.step.outstanding_moves_with_vested_released_returned", TRUE,
           Outstanding(V1) -- Outstanding(V0) =
              (IF e.name \in {"commitment.MsgVest", "commitment.MsgVestLiquid"} THEN e.args.amt
               ELSE IF e.name = "commitment.MsgClaimVesting" THEN Zero -- SumOver(VestDenoms(V0), LAMBDA d : DBal(s, t, u, d))
               ELSE Zero -- (Claimed(t, u, "ueden") -- Claimed(s, u, "ueden"))), "") }
   ELSE {})
=============================================================================
