------------------------------ MODULE Replicas ------------------------------
(***************************************************************************)
(* C19 — determinism and restart.  Replicas start from the same genesis    *)
(* and process the same blocks; after every height all of them must report *)
(* the same application hash and the same transaction results, whether or  *)
(* not a replica was stopped and restarted from its database in between,   *)
(* and all of them must reach the same final height (a replica that halts  *)
(* where the others continue disagrees as well).                           *)
(* Observation records: [schedule, replica, restarted, h, hash, results].  *)
(***************************************************************************)
EXTENDS Invariants

SameSlot(a, b) == a.schedule = b.schedule /\ a.h = b.h
\* two observations of the same height of the same schedule must agree
AgreementChecks(kind, prev, cur) ==
  IF prev = << >> \/ ~(kind = prev.kind /\ cur.schedule = prev.ev.schedule) THEN {}
  ELSE IF kind = "Rep" /\ SameSlot(prev.ev, cur) THEN
    { Chk("C19", "C19.replicas_agree_on_app_hash", TRUE, cur.hash = prev.ev.hash,
          ToString(<<cur.schedule, cur.h, prev.ev.replica, cur.replica>>)),
      Chk("C19", "C19.replicas_agree_on_tx_results", TRUE, cur.results = prev.ev.results,
          ToString(<<cur.schedule, cur.h, prev.ev.replica, cur.replica>>)),
      Chk("C19", "C19.restarted_replica_continues_identically", cur.restarted \/ prev.ev.restarted,
          (cur.restarted \/ prev.ev.restarted) => cur.hash = prev.ev.hash, ToString(<<cur.schedule, cur.h>>)) }
  ELSE IF kind = "RepEnd" THEN
    { Chk("C19", "C19.replicas_reach_the_same_height", TRUE, cur.h = prev.ev.h /\ cur.results = prev.ev.results,
          ToString(<<cur.schedule, prev.ev.replica, prev.ev.h, cur.replica, cur.h>>)) }
  ELSE {}
=============================================================================
