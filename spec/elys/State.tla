------------------------------- MODULE State --------------------------------
(***************************************************************************)
(* Accessors over the abstract state record of the Elys chain (shape in    *)
(* DESIGN.md §3.1; produced by harness/project.go for traces of the real   *)
(* application and by the St operator of each MC model).  Numbers are Num  *)
(* values (Int flavour in the models, BigInt strings in traces).           *)
(***************************************************************************)
EXTENDS Num, FiniteSets, FiniteSetsExt, Sequences, Integers

Get(f, k, d)  == IF k \in DOMAIN f THEN f[k] ELSE d

Bal(s, a, d)  == IF a \in DOMAIN s.bank THEN Get(s.bank[a], d, Zero) ELSE Zero
Supply(s, d)  == Get(s.supply, d, Zero)
Accounts(s)   == DOMAIN s.bank

\* Sum of F(x) over a finite set S
SumOver(S, F(_)) == FoldSet(LAMBDA x, acc : acc ++ F(x), Zero, S)
\* Sum of a sequence-valued expression
SumSeqOf(sq, F(_)) == SumOver(DOMAIN sq, LAMBDA i : F(sq[i]))

Max0(x)   == IF x \prec Zero THEN Zero ELSE x
MinN(a,b) == IF a \preceq b THEN a ELSE b
MaxN(a,b) == IF a \preceq b THEN b ELSE a
AbsN(x)   == IF x \prec Zero THEN Zero -- x ELSE x

AllDenoms(s) == UNION {DOMAIN s.bank[a] : a \in DOMAIN s.bank} \cup DOMAIN s.supply

-----------------------------------------------------------------------------
(* AMM *)
Pools(s)        == DOMAIN s.amm.pools
PoolAssets(s,p) == DOMAIN s.amm.pools[p].assets
Reserve(s,p,d)  == IF p \in Pools(s) /\ d \in PoolAssets(s,p) THEN s.amm.pools[p].assets[d].amt ELSE Zero
PoolAddr(p)     == "pool:" \o p
ShareDenom(s,p) == s.amm.pools[p].shareDenom
ShareDenoms(s)  == {ShareDenom(s,p) : p \in Pools(s)}
SumReserves(s,d)== SumOver(Pools(s), LAMBDA p : Reserve(s,p,d))
PoolDenoms(s)   == UNION {PoolAssets(s,p) : p \in Pools(s)}

(* Commitment *)
CommitAccts(s)      == DOMAIN s.commit.acct
Committed(s, a, d)  == IF a \in CommitAccts(s) /\ d \in DOMAIN s.commit.acct[a].committed
                         THEN s.commit.acct[a].committed[d].amt ELSE Zero
Lockups(s, a, d)    == IF a \in CommitAccts(s) /\ d \in DOMAIN s.commit.acct[a].committed
                         THEN s.commit.acct[a].committed[d].lockups ELSE <<>>
Claimed(s, a, d)    == IF a \in CommitAccts(s) THEN Get(s.commit.acct[a].claimed, d, Zero) ELSE Zero
SumCommitted(s, d)  == SumOver(CommitAccts(s), LAMBDA a : Committed(s, a, d))
SumClaimed(s, d)    == SumOver(CommitAccts(s), LAMBDA a : Claimed(s, a, d))
TotalCommitted(s,d) == Get(s.commit.total, d, Zero)
CommittedDenoms(s)  == UNION {DOMAIN s.commit.acct[a].committed : a \in CommitAccts(s)} \cup DOMAIN s.commit.total
ClaimedDenoms(s)    == UNION {DOMAIN s.commit.acct[a].claimed : a \in CommitAccts(s)}
Vesting(s, a)       == IF a \in CommitAccts(s) THEN s.commit.acct[a].vesting ELSE <<>>
VirtualDenoms       == {"ueden", "uedenb"}      \* not bank-backed: exist only inside the commitment ledger

(* Stablestake *)
Debtors(s)      == DOMAIN s.stable.debts
DebtOwed(s, a)  == (s.stable.debts[a].borrowed ++ s.stable.debts[a].stacked) -- s.stable.debts[a].paid
SumDebt(s)      == SumOver(Debtors(s), LAMBDA a : DebtOwed(s, a))
SumPrincipal(s) == SumOver(Debtors(s), LAMBDA a : s.stable.debts[a].borrowed)
VaultCash(s)    == Bal(s, "mod:stablestake", s.stable.depositDenom)

(* Leveraged LP *)
LevPools(s)     == DOMAIN s.lev.pools
LevPositions(s) == DOMAIN s.lev.positions
LevPosIn(s, p)  == {k \in LevPositions(s) : s.lev.positions[k].pool = p}

(* Perpetual *)
PerpPools(s)    == DOMAIN s.perp.pools
Mtps(s)         == DOMAIN s.perp.mtps
MtpsIn(s, p, sd)== {k \in Mtps(s) : s.perp.mtps[k].pool = p /\ s.perp.mtps[k].side = sd}
PerpField(s, p, sd, d, f) == IF d \in DOMAIN s.perp.pools[p][sd] THEN s.perp.pools[p][sd][d][f] ELSE Zero
PerpDenoms(s, p) == DOMAIN s.perp.pools[p].long \cup DOMAIN s.perp.pools[p].short
PerpTotal(s, p, d, f) == PerpField(s, p, "long", d, f) ++ PerpField(s, p, "short", d, f)

=============================================================================
