------------------------------- MODULE Pricing ------------------------------
(***************************************************************************)
(* Pricing contracts (C03, C05): the rational bounds a swap / join / exit  *)
(* result must respect, stated as integer inequalities (cross-multiplied,  *)
(* integer powers for weighted pools) with exactly the rounding allowance  *)
(* the properties grant: one base unit, or 1e-8 relative when the weights  *)
(* are unequal (the power approximation's documented precision).           *)
(* Evaluated on events produced by the real pool functions.                *)
(***************************************************************************)
EXTENDS Invariants

ONE18p == Pow(N(10), 18)
E8     == N(100000000)
RECURSIVE Gcd(_, _)
Gcd(a, b) == IF b = 0 THEN a ELSE Gcd(b, a % b)
CeilDiv(a, b) == (a ++ (b -- One)) // b

\* Allowance.  Equal weights: one base unit, exact integer bound.  Unequal weights: the pool evaluates
\* base^(w1/w2) with the power approximation, whose documented precision is 1e-8 relative to the POWER VALUE;
\* the bound therefore allows the power value to be off by the factor (1 -+ 1e-8), plus one base unit.
\*   exact-in :  y - (o - 1) >= y * (X/(X+A))^(p/q) * (1 - 1e-8)
\*   exact-out:  X + A+      >= X * (y/(y-o))^(q/p) * (1 - 1e-8),  A+ = (a + 1)(1 - f)
KHolds(x18, a18, y, o, p, q) ==
  IF p = q THEN (y -- o) ** (x18 ++ a18) \succeq y ** x18
  ELSE Pow((y -- o) ** E8, q) ** Pow(x18 ++ a18, p) \succeq Pow(y ** (E8 -- One), q) ** Pow(x18, p)
KHoldsOut(x18, a18, y, o, p, q) ==
  IF p = q THEN (y -- o) ** (x18 ++ a18) \succeq y ** x18
  ELSE Pow(y -- o, q) ** Pow((x18 ++ a18) ** E8, p) \succeq Pow(y, q) ** Pow(x18 ** (E8 -- One), p)

SwapInChecks(e) ==
  LET a == e.args  r == e.resp
      g == Gcd(a.win, a.wout)  p == a.win \div g  q == a.wout \div g
      x18 == a.rin ** ONE18p
      a18 == a.ain ** (ONE18p -- a.fee)
      o == r.out
      oM == o -- One
      \* recorded known finding C03-dec-rounding: 18-digit Dec arithmetic (Quo rounds half-even) lets the result exceed the
      \* exact floor by about rout * 0.5e-18; only possible for rout >= 1e17, and bounded by ceil(rout/1e18) + 1 further units
      extra == CeilDiv(a.rout, ONE18p) ++ One
      oK == oM -- extra
      okBal == oM \preceq Zero \/ KHolds(x18, a18, a.rout, oM, p, q)
      okKF  == oK \preceq Zero \/ KHolds(x18, a18, a.rout, oK, p, q)
  IN IF a.kind = "bal" THEN
       { ChkK("C03", "C03.balancer.exact_in_not_above_formula", TRUE, okBal, a.class,
              IF ~okBal /\ okKF /\ a.rout \succeq Pow(N(10), 17) THEN "C03-dec-rounding-large-reserves" ELSE ""),
         Chk("C03", "C03.balancer.exact_in_leaves_reserve", TRUE, o \prec a.rout, a.class) }
     ELSE
       { Chk("C03", "C03.oracle.exact_in_value_out_le_value_in", TRUE, (o -- One) ** a.pout \preceq a.ain ** a.pin, a.class),
         Chk("C03", "C03.oracle.exact_in_leaves_reserve", TRUE, o \preceq a.rout, a.class) }

SwapOutChecks(e) ==
  LET a == e.args  r == e.resp
      g == Gcd(a.win, a.wout)  p == a.win \div g  q == a.wout \div g
      x18 == a.rin ** ONE18p
      aP == r.in ++ One
      a18 == aP ** (ONE18p -- a.fee)
      extra == CeilDiv(a.rin, ONE18p) ++ One
      a18K == (aP ++ extra) ** (ONE18p -- a.fee)
      okBal == a.aout \prec a.rout /\ KHoldsOut(x18, a18, a.rout, a.aout, p, q)
      okKF  == a.aout \prec a.rout /\ KHoldsOut(x18, a18K, a.rout, a.aout, p, q)
  IN IF a.kind = "bal" THEN
       { ChkK("C03", "C03.balancer.exact_out_charges_at_least_formula", TRUE, okBal, a.class,
              IF ~okBal /\ okKF /\ a.rin \succeq Pow(N(10), 17) THEN "C03-dec-rounding-large-reserves" ELSE "") }
     ELSE
       { Chk("C03", "C03.oracle.exact_out_value_in_ge_value_out", TRUE, (r.in ++ One) ** a.pin \succeq a.aout ** a.pout, a.class),
         Chk("C03", "C03.oracle.exact_out_leaves_reserve", TRUE, a.aout \preceq a.rout, a.class) }

\* pool value at oracle prices (per base unit Dec mantissas) of the two reserves, in the orientation of the event
Tvl(a) == (a.rin ** a.pin) ++ (a.rout ** a.pout)

JoinChecksP(e) ==
  LET a == e.args  r == e.resp  S == a.shares IN
  IF e.name = "pure.joinAll" THEN
    LET pA == IF a.din = "uusdc" THEN a.pin ELSE a.pout
        pB == IF a.din = "uusdc" THEN a.pout ELSE a.pin
        tvl == (a.rA ** pA) ++ (a.rB ** pB)
        jv == (r.joinedA ** pA) ++ (r.joinedB ** pB) IN
    { Chk("C05", "C05.join_all.within_offer", TRUE, r.joinedA \preceq a.inA /\ r.joinedB \preceq a.inB, a.class),
      IF a.kind = "bal"
        THEN Chk("C05", "C05.join_all.shares_not_above_pro_rata", TRUE,
                 r.joinedA ** S \succeq r.shares ** a.rA /\ r.joinedB ** S \succeq r.shares ** a.rB, a.class)
        ELSE Chk("C05", "C05.join_all.oracle_share_value_not_above_deposit", TRUE,
                 (r.shares -- One) ** tvl \preceq jv ** S, a.class) }
  ELSE
    LET g == Gcd(a.win, a.win + a.wout)  w == a.win \div g  W == (a.win + a.wout) \div g
        shM == r.shares -- One IN
    { IF a.kind = "bal"
        THEN Chk("C05", "C05.join_single.shares_not_above_formula", TRUE,
                 \* (S + sh - 1)/S <= ((r + a)/r)^(w/W) * (1 + 1e-8)
                 shM \preceq Zero \/ Pow((S ++ shM) ** E8, W) ** Pow(a.rin, w) \preceq Pow(S ** (E8 ++ One), W) ** Pow(a.rin ++ a.ain, w), a.class)
        ELSE Chk("C05", "C05.join_single.oracle_share_value_not_above_deposit", TRUE,
                 (r.shares -- One) ** Tvl(a) \preceq (a.ain ** a.pin) ** S, a.class),
      Chk("C05", "C05.join_single.within_offer", TRUE, r.joined \preceq a.ain, a.class) }

ExitChecksP(e) ==
  LET a == e.args  r == e.resp  S == a.shares
      pA == IF a.din = "uusdc" THEN a.pin ELSE a.pout
      pB == IF a.din = "uusdc" THEN a.pout ELSE a.pin
      tvl == (a.rA ** pA) ++ (a.rB ** pB)
      outV == (r.outA ** pA) ++ (r.outB ** pB)
      single == a.outDenom # "" /\ a.kind = "oracle" IN
  { Chk("C05", "C05.exit.never_all_shares_nor_a_whole_reserve", TRUE,
        a.burn \prec S /\ r.outA \prec a.rA /\ r.outB \prec a.rB /\ r.sharesAfter \succ Zero /\ r.rAafter \succ Zero /\ r.rBafter \succ Zero, a.class),
    IF single
      THEN Chk("C05", "C05.exit_single.value_not_above_pro_rata_claim", TRUE,
               (outV -- MaxN(pA, pB)) ** S \preceq a.burn ** tvl, a.class)
      ELSE Chk("C05", "C05.exit.not_above_pro_rata", TRUE,
               r.outA ** S \preceq a.burn ** a.rA /\ r.outB ** S \preceq a.burn ** a.rB, a.class),
    Chk("C05", "C05.exit.book_keeping", TRUE,
        r.sharesAfter = S -- a.burn /\ r.rAafter = a.rA -- r.outA /\ r.rBafter = a.rB -- r.outB, a.class) }

\* a refused call is always acceptable for these properties, except that "exit everything" MUST be refused
RefusalChecks(e) ==
  IF e.name \in {"pure.exit", "pure.exitSingle"} THEN {} ELSE {}

PricingChecks(e) ==
  IF ~e.ok THEN RefusalChecks(e)
  ELSE IF e.name = "pure.swapIn" THEN SwapInChecks(e)
  ELSE IF e.name = "pure.swapOut" THEN SwapOutChecks(e)
  ELSE IF e.name \in {"pure.joinAll", "pure.joinSingle"} THEN JoinChecksP(e)
  ELSE IF e.name \in {"pure.exit", "pure.exitSingle"} THEN ExitChecksP(e)
  ELSE {}
=============================================================================
