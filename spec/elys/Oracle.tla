------------------------------- MODULE Oracle -------------------------------
(***************************************************************************)
(* C16 — the price oracle as a deterministic specification over the price  *)
(* TABLE (a set of entries [asset, source, ts, height, price, provider],   *)
(* at most one per (asset, source, ts)):                                   *)
(*   Feed     an active registered feeder inserts / overwrites the entries *)
(*            (asset, source, block time) it names, nothing else;          *)
(*   Expire   at the end of every block the entries that are older than    *)
(*            the expiry time or the life time in blocks disappear,        *)
(*            nothing else;                                                *)
(*   Lookup   GetAssetPrice(x) answers from the entries whose asset is     *)
(*            EXACTLY x: source "elys" first, then "band", then any, the   *)
(*            newest entry of that source; "not found" iff there is none.  *)
(* A trace step conforms iff the observed table after the step equals the  *)
(* function's value on the table before it, and every probed lookup agrees *)
(* with the reference lookup over the observed table.                      *)
(***************************************************************************)
EXTENDS Events

PriceSet(s)  == {s.oracle.prices[i] : i \in DOMAIN s.oracle.prices}
PKey(r)      == <<r.asset, r.source, r.ts>>
Feeders(s)   == s.oracle.feeders
ActiveFeeder(s, a) == a \in DOMAIN Feeders(s) /\ Feeders(s)[a]

\* exp / life are Num values (governance may set them beyond TLC's integers)
Expired(r, now, h, exp, life) == (N(r.ts) ++ exp) \prec N(now) \/ (N(r.height) ++ life) \prec N(h)
Expire(P, now, h, exp, life)  == {r \in P : ~Expired(r, now, h, exp, life)}

\* the entries one feed message writes at (time, height); if it names a key twice the last one wins
FedEntries(e, now, h) ==
  LET F == e.args.feeds
      last == {i \in DOMAIN F : ~\E j \in DOMAIN F : j > i /\ F[j].asset = F[i].asset /\ F[j].source = F[i].source}
  IN {[asset |-> F[i].asset, source |-> F[i].source, ts |-> now, height |-> h, price |-> F[i].price, provider |-> e.sender] : i \in last}
FeedPost(P, F) == {r \in P : PKey(r) \notin {PKey(f) : f \in F}} \cup F

\* reference lookup
Live(P, x)        == {r \in P : r.asset = x}
FromSrc(P, x, so) == {r \in Live(P, x) : r.source = so}
Newest(S)         == CHOOSE r \in S : \A r2 \in S : r2.ts <= r.ts
Matches(got, r)   == got.found /\ got.asset = r.asset /\ got.source = r.source /\ got.ts = r.ts /\ got.price = r.price
RefLookupOK(P, x, got) ==
  IF Live(P, x) = {} THEN ~got.found
  ELSE IF FromSrc(P, x, "elys") # {} THEN Matches(got, Newest(FromSrc(P, x, "elys")))
  ELSE IF FromSrc(P, x, "band") # {} THEN Matches(got, Newest(FromSrc(P, x, "band")))
  ELSE \E r \in Live(P, x) : Matches(got, r) /\ r = Newest(FromSrc(P, x, r.source))

\* LegacyDec quotient by 10^k: round half to even on the 18-digit mantissa
RoundHalfEven(a, b) ==
  LET q == a // b  r == a %% b IN
  IF (r ** N(2)) \prec b THEN q
  ELSE IF (r ** N(2)) \succ b THEN q ++ One
  ELSE IF q %% N(2) = Zero THEN q ELSE q ++ One
DenomLookupOK(s, d, got) ==
  IF d \notin DOMAIN s.oracle.assetInfo THEN got = Zero
  ELSE LET disp == s.oracle.assetInfo[d].display IN
       IF disp \notin DOMAIN s.oracle.lookup THEN TRUE           \* not probed
       ELSE IF ~s.oracle.lookup[disp].found THEN got = Zero
       ELSE got = RoundHalfEven(s.oracle.lookup[disp].price, Pow(N(10), s.oracle.assetInfo[d].decimal))

-----------------------------------------------------------------------------
InvC16(s) ==
  LET P == PriceSet(s)
      badLook == {x \in DOMAIN s.oracle.lookup : ~RefLookupOK(P, x, s.oracle.lookup[x])}
      badDen  == {d \in DOMAIN s.oracle.lookupDenom : ~DenomLookupOK(s, d, s.oracle.lookupDenom[d])}
      dupKeys == {r \in P : \E r2 \in P : r2 # r /\ PKey(r2) = PKey(r)}
  IN { Chk("C16", "C16.inv.lookup_serves_newest_live_price_of_exactly_the_asked_asset", DOMAIN s.oracle.lookup # {}, badLook = {},
           IF badLook = {} THEN "" ELSE ToString({<<x, s.oracle.lookup[x].found, s.oracle.lookup[x].asset, s.oracle.lookup[x].source, s.oracle.lookup[x].ts>> : x \in badLook})),
       Chk("C16", "C16.inv.denom_without_info_or_live_price_yields_no_price", DOMAIN s.oracle.lookupDenom # {}, badDen = {}, Bad(badDen)),
       Chk("C16", "C16.inv.one_entry_per_asset_source_time", P # {}, dupKeys = {}, "") }

FeedMsgs == {"oracle.MsgFeedPrice", "oracle.MsgFeedMultiplePrices"}

C16StepChecks(k, e, s, t) ==
  LET P0 == PriceSet(s)  P1 == PriceSet(t)
      now == t.chain.t  h == t.chain.h
      isFeed == k = "Tx" /\ e.ok /\ e.name \in FeedMsgs
      F == IF isFeed THEN FedEntries(e, now, h) ELSE {}
      want == IF isFeed THEN FeedPost(P0, F)
              ELSE IF k = "End" THEN Expire(P0, now, h, s.oracle.expiry, s.oracle.lifetime)
              ELSE P0
      missing == want \ P1
      extra   == P1 \ want
      \* recorded known finding: the store key is asset ++ source ++ "/" ++ time with no separator between asset and
      \* source, so two different (asset, source) pairs with the same concatenation fed at the same block time share a key
      collides(m) == \E r \in P1 : /\ r # m /\ <<r.asset, r.source>> # <<m.asset, m.source>>
                                   /\ r.asset \o r.source = m.asset \o m.source /\ r.ts = m.ts
      kfCollision == isFeed /\ extra = {} /\ missing # {} /\ \A m \in missing : collides(m)
      fs == DOMAIN Feeders(s) \cup DOMAIN Feeders(t)
      changed == {a \in fs : (a \in DOMAIN Feeders(s)) # (a \in DOMAIN Feeders(t))
                             \/ (a \in DOMAIN Feeders(s) /\ a \in DOMAIN Feeders(t) /\ Feeders(s)[a] # Feeders(t)[a])}
      govFeeders == k = "Admin" /\ e.ok /\ e.name \in {"oracle.MsgAddPriceFeeders", "oracle.MsgRemovePriceFeeders"}
      ownFeeder  == k = "Tx" /\ e.ok /\ e.name \in {"oracle.MsgSetPriceFeeder", "oracle.MsgDeletePriceFeeder"}
  IN
  { ChkK("C16", IF isFeed THEN "C16.step.feed_writes_exactly_the_fed_entries"
                ELSE IF k = "End" THEN "C16.step.end_of_block_removes_exactly_the_expired_entries"
                ELSE "C16.step.prices_change_only_by_feed_or_expiry",
         isFeed \/ P0 # {} \/ P1 # {}, missing = {} /\ extra = {},
         IF missing = {} /\ extra = {} THEN "" ELSE ToString(<<"missing", {PKey(r) : r \in missing}, "extra", {PKey(r) : r \in extra}>>),
         IF kfCollision THEN "C16-key-collision-on-concatenated-names" ELSE ""),
    Chk("C16", "C16.step.feeder_set_changes_only_by_the_feeder_itself_or_governance", changed # {},
        changed = {} \/ govFeeders \/ (ownFeeder /\ changed \subseteq {e.sender}), Bad(changed)) }
  \cup
  (IF k = "Tx" /\ e.name \in FeedMsgs THEN
     { Chk("C16", "C16.step.only_an_active_registered_feeder_can_write", TRUE, e.ok => ActiveFeeder(s, e.sender), e.sender) }
   ELSE {})
  \cup
  (IF ownFeeder THEN
     { Chk("C16", "C16.step.feeder_activation_follows_the_request", TRUE,
           /\ e.sender \in DOMAIN Feeders(s)
           /\ IF e.name = "oracle.MsgDeletePriceFeeder" THEN e.sender \notin DOMAIN Feeders(t)
              ELSE e.sender \in DOMAIN Feeders(t) /\ Feeders(t)[e.sender] = e.args.active, "") }
   ELSE {})
=============================================================================
