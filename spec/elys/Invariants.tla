----------------------------- MODULE Invariants -----------------------------
(***************************************************************************)
(* State invariants of the Elys chain: the formal statement of the         *)
(* "at every block boundary" properties C01 C02 C06 C08 C09 C11 C12 C13    *)
(* C15 over the abstract state s and the ghost state g.  Each is a named   *)
(* check record so that one pass over a trace reports every failing check  *)
(* of every property.  They are evaluated at every observation point       *)
(* (after begin-block, after each transaction, after end-block), which is  *)
(* stronger than the properties require and is sound because the only      *)
(* deferred work inside a block (queued swaps) moves no funds until        *)
(* end-block.                                                              *)
(***************************************************************************)
EXTENDS Ghost, TLC

Chk(prop, name, live, ok, info) == [prop |-> prop, name |-> name, live |-> live, ok |-> ok, info |-> info, kf |-> ""]
\* a failing check whose failure matches the signature of a recorded known finding `kf`
ChkK(prop, name, live, ok, info, kf) == [prop |-> prop, name |-> name, live |-> live, ok |-> ok, info |-> info, kf |-> kf]
Bad(S) == IF S = {} THEN "" ELSE ToString(S)

-----------------------------------------------------------------------------
(* C01 — AMM reserves = real holdings; DenomLiquidity = sum of reserves *)
InvC01(s, g) ==
  LET badRes == {<<p, d>> \in UNION {{<<p, d>> : d \in PoolAssets(s, p)} : p \in Pools(s)} :
                    Reserve(s, p, d) ++ Don(g, PoolAddr(p), d) # Bal(s, PoolAddr(p), d)}
      badOther == {<<p, d>> \in UNION {{<<p, d>> : d \in (IF PoolAddr(p) \in DOMAIN s.bank THEN DOMAIN s.bank[PoolAddr(p)] ELSE {}) \ PoolAssets(s, p)} : p \in Pools(s)} :
                    Bal(s, PoolAddr(p), d) # Don(g, PoolAddr(p), d)}
      badLiq == {d \in PoolDenoms(s) \cup DOMAIN s.amm.denomLiq : Get(s.amm.denomLiq, d, Zero) # SumReserves(s, d)}
  IN { Chk("C01", "C01.inv.reserve_eq_bank", Pools(s) # {}, badRes = {}, Bad(badRes)),
       Chk("C01", "C01.inv.pool_holds_only_its_assets", Pools(s) # {}, badOther = {}, Bad(badOther)),
       Chk("C01", "C01.inv.denom_liquidity_eq_sum_reserves", Pools(s) # {}, badLiq = {}, Bad(badLiq)) }

(* C02 — share supply = pool.TotalShares = sum committed = custody balance *)
InvC02(s, g) ==
  LET bad1 == {p \in Pools(s) : s.amm.pools[p].shares # Supply(s, ShareDenom(s, p))}
      bad2 == {p \in Pools(s) : s.amm.pools[p].shares # SumCommitted(s, ShareDenom(s, p))}
      bad3 == {p \in Pools(s) : s.amm.pools[p].shares ++ Don(g, "mod:commitment", ShareDenom(s, p)) # Bal(s, "mod:commitment", ShareDenom(s, p))}
      bad4 == {<<p, a>> \in Pools(s) \X (Accounts(s) \ {"mod:commitment"}) : Bal(s, a, ShareDenom(s, p)) # Zero}
  IN { Chk("C02", "C02.inv.shares_eq_supply", Pools(s) # {}, bad1 = {}, Bad(bad1)),
       Chk("C02", "C02.inv.shares_eq_sum_committed", Pools(s) # {}, bad2 = {}, Bad(bad2)),
       Chk("C02", "C02.inv.custody_holds_all_shares", Pools(s) # {}, bad3 = {}, Bad(bad3)),
       Chk("C02", "C02.inv.no_shares_outside_custody", Pools(s) # {}, bad4 = {}, Bad(bad4)) }

(* C06 — vault value = cash + sum (principal + unpaid accrued interest), on stored values *)
InvC06(s, g) ==
  LET lhs == s.stable.totalValue
      rhs == (VaultCash(s) -- Don(g, "mod:stablestake", s.stable.depositDenom)) ++ SumDebt(s)
  IN { Chk("C06", "C06.inv.total_value_eq_cash_plus_loans", lhs # Zero \/ Debtors(s) # {}, lhs = rhs,
           IF lhs = rhs THEN "" ELSE "totalValue=" \o Str(lhs) \o " cash+loans=" \o Str(rhs)),
       Chk("C06", "C06.inv.debt_fields_nonnegative", Debtors(s) # {},
           \A a \in Debtors(s) : Zero \preceq s.stable.debts[a].borrowed /\ s.stable.debts[a].paid \preceq s.stable.debts[a].stacked,
           "") }

(* C08 — leveraged-LP totals = sum of positions; shares really committed *)
InvC08(s, g) ==
  LET bad1 == {p \in LevPools(s) : s.lev.pools[p].leveragedLp # SumOver(LevPosIn(s, p), LAMBDA k : s.lev.positions[k].lp)}
      bad2 == {k \in LevPositions(s) :
                 \/ s.lev.positions[k].pool \notin Pools(s)
                 \/ s.lev.positions[k].lp # Committed(s, s.lev.positions[k].posAddr, ShareDenom(s, s.lev.positions[k].pool))}
      \* no shares left behind at the address of a position that no longer exists
      posAddrs == {s.lev.positions[k].posAddr : k \in LevPositions(s)}
      bad3 == {a \in CommitAccts(s) : /\ a \notin posAddrs
                                      /\ s.commit.acct[a].kind = "levpos"
                                      /\ \E d \in DOMAIN s.commit.acct[a].committed : s.commit.acct[a].committed[d].amt # Zero}
  IN { Chk("C08", "C08.inv.pool_total_eq_sum_positions", LevPositions(s) # {}, bad1 = {}, Bad(bad1)),
       Chk("C08", "C08.inv.position_lp_eq_committed_at_position_address", LevPositions(s) # {}, bad2 = {}, Bad(bad2)),
       Chk("C08", "C08.inv.open_count_eq_stored_positions", LevPositions(s) # {} \/ s.lev.openCount # 0,
           s.lev.openCount = Cardinality(LevPositions(s)), ""),
       Chk("C08", "C08.inv.closed_position_leaves_no_shares", CommitAccts(s) # {}, bad3 = {}, Bad(bad3)) }

(* C09 — perpetual aggregates = sum of MTPs; custody backed by the amm pool *)
InvC09(s, g) ==
  LET keys == UNION {{<<p, sd, d>> : sd \in {"long", "short"}, d \in PerpDenoms(s, p)} : p \in PerpPools(s)}
      SumM(p, sd, d, f, asset) == SumOver({k \in MtpsIn(s, p, sd) : s.perp.mtps[k][asset] = d}, LAMBDA k : s.perp.mtps[k][f])
      badCust == {x \in keys : PerpField(s, x[1], x[2], x[3], "custody") # SumM(x[1], x[2], x[3], "custody", "custAsset")}
      badLiab == {x \in keys : PerpField(s, x[1], x[2], x[3], "liab") # SumM(x[1], x[2], x[3], "liab", "liabAsset")}
      badColl == {x \in keys : PerpField(s, x[1], x[2], x[3], "collateral") # SumM(x[1], x[2], x[3], "collateral", "collAsset")}
      badPool == {k \in Mtps(s) : s.perp.mtps[k].pool \notin PerpPools(s)}
      badBack == {<<p, d>> \in UNION {{<<p, d>> : d \in PerpDenoms(s, p)} : p \in PerpPools(s)} :
                    Reserve(s, p, d) \prec PerpTotal(s, p, d, "custody")}
  IN { Chk("C09", "C09.inv.pool_custody_eq_sum_mtps", Mtps(s) # {}, badCust = {}, Bad(badCust)),
       Chk("C09", "C09.inv.pool_liabilities_eq_sum_mtps", Mtps(s) # {}, badLiab = {}, Bad(badLiab)),
       Chk("C09", "C09.inv.pool_collateral_eq_sum_mtps", Mtps(s) # {}, badColl = {}, Bad(badColl)),
       Chk("C09", "C09.inv.mtp_pool_exists", Mtps(s) # {}, badPool = {}, Bad(badPool)),
       Chk("C09", "C09.inv.open_count_eq_stored_mtps", Mtps(s) # {} \/ s.perp.openCount # 0, s.perp.openCount = Cardinality(Mtps(s)), ""),
       Chk("C09", "C09.inv.custody_backed_by_amm_pool", Mtps(s) # {}, badBack = {}, Bad(badBack)) }

(* C11 — accounted balance = reserve + liabilities - custody (tpFlag = FALSE: the default formula) *)
InvC11(s, g) ==
  LET ps == {p \in DOMAIN s.acc : p \in PerpPools(s) /\ p \in Pools(s)}
      NonAmm(p, d) == PerpTotal(s, p, d, "liab") -- PerpTotal(s, p, d, "custody")
      keys == UNION {{<<p, d>> : d \in PoolAssets(s, p)} : p \in ps}
      badTot == {x \in keys : Get(s.acc[x[1]].total, x[2], Zero) # Reserve(s, x[1], x[2]) ++ NonAmm(x[1], x[2])}
      badNon == {x \in keys : Get(s.acc[x[1]].nonAmm, x[2], Zero) # NonAmm(x[1], x[2])}
  IN IF s.perp.tpFlag THEN {} ELSE
     { Chk("C11", "C11.inv.accounted_total_eq_reserve_plus_liab_minus_custody", ps # {}, badTot = {}, Bad(badTot)),
       Chk("C11", "C11.inv.non_amm_part_eq_liab_minus_custody", ps # {}, badNon = {}, Bad(badNon)) }

(* C12 — commitment totals, custody, lock-ups *)
InvC12(s, g) ==
  LET now == s.chain.t
      badTot == {d \in CommittedDenoms(s) : TotalCommitted(s, d) # SumCommitted(s, d) ++ Drift12(g, d)}
      badCus == {d \in (CommittedDenoms(s) \cup ClaimedDenoms(s)) \ VirtualDenoms :
                   Bal(s, "mod:commitment", d) \prec SumCommitted(s, d) ++ SumClaimed(s, d)}
      Locked(a, d) == SumSeqOf(SelectSeq(Lockups(s, a, d), LAMBDA l : l.until > now), LAMBDA l : l.amt)
      badLock == {<<a, d>> \in UNION {{<<a, d>> : d \in DOMAIN s.commit.acct[a].committed} : a \in CommitAccts(s)} :
                   Committed(s, a, d) \prec Locked(a, d)}
      badNeg == {<<a, d>> \in UNION {{<<a, d>> : d \in DOMAIN s.commit.acct[a].committed} : a \in CommitAccts(s)} :
                   Committed(s, a, d) \prec Zero}
  IN { Chk("C12", "C12.inv.total_eq_sum_of_accounts", CommittedDenoms(s) # {}, badTot = {}, Bad(badTot)),
       Chk("C12", "C12.inv.custody_covers_committed_plus_claimed", CommittedDenoms(s) # {}, badCus = {}, Bad(badCus)),
       Chk("C12", "C12.inv.locked_never_exceeds_committed", CommittedDenoms(s) # {}, badLock = {}, Bad(badLock)),
       Chk("C12", "C12.inv.committed_nonnegative", CommittedDenoms(s) # {}, badNeg = {}, Bad(badNeg)) }

(* C13 — credited LP rewards are always payable.                                              *)
(* Masterchef's accumulator scheme: claimable(p, d, a) = pending + (accPerShare[p,d] * bal(a,p) *)
(* - debt) / 1e18, in 18-digit Dec mantissas exactly as the code computes it.                  *)
E18 == Pow(N(10), 18)
RewardShareDenom(s, p) == IF p = s.mc.stablePoolId THEN s.stable.shareDenom ELSE "amm/pool/" \o p
AccKey(p, d)        == p \o "|" \o d
UserKey(p, d, a)    == p \o "|" \o d \o "|" \o a
AccM(s, p, d)       == IF AccKey(p, d) \in DOMAIN s.mc.accPerShare THEN s.mc.accPerShare[AccKey(p, d)].acc ELSE Zero
PendingM(s, p, d, a)== IF UserKey(p, d, a) \in DOMAIN s.mc.user THEN s.mc.user[UserKey(p, d, a)].pending ELSE Zero
DebtM(s, p, d, a)   == IF UserKey(p, d, a) \in DOMAIN s.mc.user THEN s.mc.user[UserKey(p, d, a)].debt ELSE Zero
ClaimableM(s, x)    == \* x = <<pool, denom, account>>; result is a Dec mantissa
  PendingM(s, x[1], x[2], x[3]) ++ (((AccM(s, x[1], x[2]) ** Committed(s, x[3], RewardShareDenom(s, x[1]))) -- DebtM(s, x[1], x[2], x[3])) // E18)
RewardKeys(s) ==
  {<<s.mc.user[k].pool, s.mc.user[k].denom, s.mc.user[k].user>> : k \in DOMAIN s.mc.user}
  \cup UNION {{<<s.mc.accPerShare[k].pool, s.mc.accPerShare[k].denom, a>> :
                 a \in {b \in CommitAccts(s) : Committed(s, b, RewardShareDenom(s, s.mc.accPerShare[k].pool)) # Zero}} : k \in DOMAIN s.mc.accPerShare}
RewardDenoms(s) == {x[2] : x \in RewardKeys(s)}
CreditedTotal(s, d) == SumOver({x \in RewardKeys(s) : x[2] = d}, LAMBDA x : ClaimableM(s, x) // E18)

InvC13(s, g) ==
  LET bad == {d \in RewardDenoms(s) \ VirtualDenoms : Bal(s, "mod:masterchef", d) \prec CreditedTotal(s, d)}
      neg == {x \in RewardKeys(s) : ClaimableM(s, x) \prec Zero}
  IN { Chk("C13", "C13.inv.module_balance_covers_credited_rewards", RewardKeys(s) # {}, bad = {},
           IF bad = {} THEN "" ELSE ToString({<<d, Bal(s, "mod:masterchef", d), CreditedTotal(s, d)>> : d \in bad})),
       Chk("C13", "C13.inv.credited_rewards_nonnegative", RewardKeys(s) # {}, neg = {}, Bad(neg)) }

(* C15 — bank supply bookkeeping (the per-denom supply rules are step checks) *)
InvC15(s, g) ==
  LET bad == {d \in AllDenoms(s) : Supply(s, d) # SumOver(Accounts(s), LAMBDA a : Bal(s, a, d))}
  IN { Chk("C15", "C15.inv.supply_eq_sum_of_balances", TRUE, bad = {}, Bad(bad)) }

InvChecks(s, g) ==
  InvC01(s, g) \cup InvC02(s, g) \cup InvC06(s, g) \cup InvC08(s, g) \cup InvC09(s, g) \cup InvC11(s, g)
    \cup InvC12(s, g) \cup InvC13(s, g) \cup InvC15(s, g)
=============================================================================
