------------------------------ MODULE Registry ------------------------------
(***************************************************************************)
(* Beyond the listed properties (pseudo-property EXT): the chain's         *)
(* REGISTRIES - module parameters, pool parameters, the price-feeder set,  *)
(* asset infos, leverage pool settings - as state that only governance     *)
(* (an Admin step) or the one owner-scoped message that is meant to write  *)
(* it may change.                                                          *)
(*   params   s.params[m] is the module's stored Params flattened to       *)
(*            leaf -> JSON text (harness/params.go).  No begin / end       *)
(*            blocker, ante handler or user transaction changes a leaf     *)
(*            (apart from the few leaves a module keeps its running state  *)
(*            in, DynamicLeaf); a governance MsgUpdateParams that is       *)
(*            accepted stores EXACTLY the requested value of every leaf    *)
(*            and changes no other module's parameters; a refused one      *)
(*            changes nothing.                                             *)
(*   pools    swap fee, fee denom, oracle flag, asset set of every pool    *)
(*            and - for constant-product pools - every weight are fixed    *)
(*            outside governance steps.                                    *)
(*   feeders  the price-feeder set changes only by governance or by the    *)
(*            feeder's own MsgSetPriceFeeder / MsgDeletePriceFeeder.       *)
(*   burnable bank denom metadata (what the burner destroys at the zero    *)
(*            address) grows only by the share denom of a new pool.        *)
(***************************************************************************)
EXTENDS Events

\* leaves of a stored Params value in which the module keeps RUNNING STATE (updated by ordinary operation)
DynamicLeaf == { <<"stablestake", "total_value">>, <<"stablestake", "interest_rate">>, <<"stablestake", "redemption_rate">> }

Leaves(s, m) == DOMAIN s.params[m]
ParamDiff(s, t, m) ==
  {x \in Leaves(s, m) \cup Leaves(t, m) :
      /\ <<m, x>> \notin DynamicLeaf
      /\ (x \notin Leaves(s, m) \/ x \notin Leaves(t, m) \/ s.params[m][x] # t.params[m][x])}

PoolFixedDiff(s, t) ==
  {p \in DOMAIN s.amm.pools \cap DOMAIN t.amm.pools :
     LET P == s.amm.pools[p]  Q == t.amm.pools[p] IN
       \/ P.swapFee # Q.swapFee \/ P.useOracle # Q.useOracle \/ P.feeDenom # Q.feeDenom \/ P.shareDenom # Q.shareDenom
       \/ DOMAIN P.assets # DOMAIN Q.assets
       \/ (~P.useOracle /\ (P.totalWeight # Q.totalWeight \/ \E d \in DOMAIN P.assets \cap DOMAIN Q.assets : P.assets[d].weight # Q.assets[d].weight))}

FeederDiff(s, t) ==
  LET F == s.oracle.feeders  G == t.oracle.feeders IN
  {a \in DOMAIN F \cup DOMAIN G : a \notin DOMAIN F \/ a \notin DOMAIN G \/ F[a] # G[a]}

LevPoolDiff(s, t) ==
  {p \in DOMAIN s.lev.pools \cap DOMAIN t.lev.pools :
     s.lev.pools[p].leverageMax # t.lev.pools[p].leverageMax \/ s.lev.pools[p].maxRatio # t.lev.pools[p].maxRatio}

\* bank denom metadata decides what the burner destroys at the zero address: the set grows only by the share denom of a pool
\* created in the same step (amm registers it), or by governance
MetaDenoms(s) == {s.burner.denoms[i] : i \in DOMAIN s.burner.denoms}
NewPoolShares(s, t) == {t.amm.pools[p].shareDenom : p \in DOMAIN t.amm.pools \ DOMAIN s.amm.pools}

RegistryStepChecks(k, e, s, t) ==
  LET hasP == "params" \in DOMAIN s /\ "params" \in DOMAIN t
      ms == IF hasP THEN DOMAIN s.params \cap DOMAIN t.params ELSE {}
      isUpd == k = "Admin" /\ "requested" \in DOMAIN e.args
      um == IF isUpd THEN e.args.module ELSE ""
      changed == {m \in ms : ParamDiff(s, t, m) # {}}
      notStored == IF isUpd /\ e.ok /\ um \in ms
                   THEN {x \in DOMAIN e.args.requested : <<um, x>> \notin DynamicLeaf /\ (x \notin Leaves(t, um) \/ t.params[um][x] # e.args.requested[x])}
                        \cup {x \in Leaves(t, um) : <<um, x>> \notin DynamicLeaf /\ x \notin DOMAIN e.args.requested}
                   ELSE {}
      fd == FeederDiff(s, t)
      ownFeederMsg == k = "Tx" /\ e.name \in {"oracle.MsgSetPriceFeeder", "oracle.MsgDeletePriceFeeder"}
  IN (IF hasP THEN
       { Chk("EXT", "EXT.params.only_governance_changes_module_parameters", ms # {} /\ k # "Admin", k = "Admin" \/ changed = {},
             IF k = "Admin" \/ changed = {} THEN "" ELSE ToString({<<m, ParamDiff(s, t, m)>> : m \in changed})),
         Chk("EXT", "EXT.params.accepted_update_stores_the_requested_values", isUpd /\ e.ok,
             ~(isUpd /\ e.ok) \/ (notStored = {} /\ changed \subseteq {um}),
             IF isUpd /\ e.ok THEN Bad(notStored \cup (changed \ {um})) ELSE ""),
         Chk("EXT", "EXT.params.refused_update_changes_no_parameter", isUpd /\ ~e.ok, ~(isUpd /\ ~e.ok) \/ changed = {}, Bad(changed)) }
      ELSE {})
     \cup
     { Chk("EXT", "EXT.amm.pool_settings_change_only_by_governance", DOMAIN s.amm.pools # {} /\ k # "Admin",
           k = "Admin" \/ PoolFixedDiff(s, t) = {}, IF k = "Admin" THEN "" ELSE Bad(PoolFixedDiff(s, t))),
       Chk("EXT", "EXT.oracle.feeder_set_changes_only_by_gov_or_the_feeder", k # "Admin",
           k = "Admin" \/ fd = {} \/ (ownFeederMsg /\ fd \subseteq {e.sender}), IF k = "Admin" THEN "" ELSE Bad(fd)),
       Chk("EXT", "EXT.bank.burnable_denoms_grow_only_by_new_pool_shares", k # "Admin",
           k = "Admin" \/ (MetaDenoms(t) \ MetaDenoms(s)) \subseteq NewPoolShares(s, t),
           IF k = "Admin" THEN "" ELSE Bad((MetaDenoms(t) \ MetaDenoms(s)) \ NewPoolShares(s, t))),
       Chk("EXT", "EXT.leveragelp.pool_settings_change_only_by_governance", DOMAIN s.lev.pools # {} /\ k # "Admin",
           k = "Admin" \/ LevPoolDiff(s, t) = {}, IF k = "Admin" THEN "" ELSE Bad(LevPoolDiff(s, t))) }
=============================================================================
