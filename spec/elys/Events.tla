------------------------------- MODULE Events -------------------------------
(***************************************************************************)
(* Accessors over observed steps (k, e, s, t): k the observation kind      *)
(* (Begin, Ante, Tx, PreEnd, End, Commit, Admin), e the event record, s/t  *)
(* the abstract state before / after.  Shared by every contract module.    *)
(***************************************************************************)
EXTENDS Invariants

IsTx(k, e, name)   == k = "Tx" /\ e.name = name
TxOK(k, e, name)   == k = "Tx" /\ e.name = name /\ e.ok
Arg(e, a, d)       == IF a \in DOMAIN e.args THEN e.args[a] ELSE d
Resp(e, a, d)      == IF a \in DOMAIN e.resp THEN e.resp[a] ELSE d
DBal(s, t, a, d)   == Bal(t, a, d) -- Bal(s, a, d)
DSupply(s, t, d)   == Supply(t, d) -- Supply(s, d)
\* accounts driven by private keys (users, bots, feeders); every other account is protocol-owned
UserAccts(s) == {s.users[i] : i \in DOMAIN s.users}
\* At the start of its provider epoch estaking claims (and re-vests) the Eden of the provider reward account in the begin blocker:
\* the uelys that vesting releases is minted to that module account.  The amount, for supply bookkeeping of that step:
ProviderAcct == "mod:cons_to_send_to_provider"
ProviderRelease(k, s, t, d) ==
  IF k = "Begin" /\ d = "uelys" /\ Vesting(s, ProviderAcct) # Vesting(t, ProviderAcct) /\ DBal(s, t, ProviderAcct, d) \succ Zero
  THEN DBal(s, t, ProviderAcct, d) ELSE Zero
\* a governance-authority message applied between blocks through the real MsgServiceRouter
AdminOK(k, e, name) == k = "Admin" /\ e.name = name /\ e.ok
=============================================================================
