------------------------------- MODULE Events -------------------------------
(***************************************************************************)
(* Accessors over observed steps (k, e, s, t): k the observation kind      *)
(* (Begin, Ante, Tx, PreEnd, End, Commit, Admin), e the event record, s/t  *)
(* the abstract state before / after.  Shared by every contract module.    *)
(***************************************************************************)
EXTENDS Invariants

IsTx(k, e, name)   == k = "Tx" /\ e.name = name
TxOK(k, e, name)   == k = "Tx" /\ e.name = name /\ e.ok
Arg(e, a, d)       == IF a \in DOMAIN e.args THEN e.args[a] ELSE d
Resp(e, a, d)      == IF a \in DOMAIN e.resp THEN e.resp[a] ELSE d
DBal(s, t, a, d)   == Bal(t, a, d) -- Bal(s, a, d)
DSupply(s, t, d)   == Supply(t, d) -- Supply(s, d)
\* accounts driven by private keys (users, bots, feeders); every other account is protocol-owned
UserAccts(s) == {s.users[i] : i \in DOMAIN s.users}
\* a governance-authority message applied between blocks through the real MsgServiceRouter
AdminOK(k, e, name) == k = "Admin" /\ e.name = name /\ e.ok
=============================================================================
