------------------------------ MODULE Contracts -----------------------------
(***************************************************************************)
(* Step contracts: what every observed step (k, e, s, t) of the Elys chain *)
(* must satisfy.  k is the observation kind (Begin, Ante, Tx, PreEnd, End, *)
(* Commit), e the event record (message name, sender, arguments, result,   *)
(* response, ABCI events), s / t the abstract state before / after, g the  *)
(* ghost state before.  Checks(k, e, s, t, g) is a set of named check      *)
(* records; GhostNext computes the ghost state after the step.             *)
(*                                                                         *)
(* The same operators are evaluated (a) by the exhaustive models under     *)
(* spec/mc — the model refines the contract — and (b) on traces of the     *)
(* real application by spec/trace/Trace.tla.                                *)
(***************************************************************************)
EXTENDS Events, Vesting, Oracle, Batch, Orders, Authority, Epochs, Registry

-----------------------------------------------------------------------------
(* Ghost state transition *)
GhostNext(k, e, s, t, g) ==
  LET \* a successful plain bank send to a protocol-owned address is a third-party donation
      don1 == IF TxOK(k, e, "bank.MsgSend") /\ IsProtocolAddr(s, e.args.to)
                THEN GAdd(g.donated, <<e.args.to, e.args.denom>>, e.args.amt) ELSE g.donated
      \* C12 known finding: drift of the chain-wide committed total (see C12StepChecks)
      ds == CommittedDenoms(s) \cup CommittedDenoms(t)
      drift == [d \in ds \cup DOMAIN g.c12drift |->
                  Drift12(g, d) ++ ((TotalCommitted(t, d) -- TotalCommitted(s, d)) -- (SumCommitted(t, d) -- SumCommitted(s, d)))]
      \* the specification's lock ledger: every mint of oracle-pool shares is locked for an hour; expired entries are
      \* dropped when the account next uncommits; a leveraged-LP force close (liquidation) overrides and clears the locks
      now == t.chain.t
      forceClose == k = "Begin" \/ (k = "Tx" /\ e.name = "leveragelp.MsgClosePositions")
      pairs == LockPairs(s) \cup LockPairs(t) \cup DOMAIN g.locks
      locks == [x \in pairs |->
                  LET inc == Committed(t, x[1], x[2]) -- Committed(s, x[1], x[2])
                      old == GLocks(g, x[1], x[2]) IN
                  IF inc \succ Zero THEN Append(old, [amt |-> inc, until |-> now + LockSeconds])
                  ELSE IF inc \prec Zero THEN
                         (IF forceClose /\ x[1] \in CommitAccts(s) /\ s.commit.acct[x[1]].kind = "levpos" THEN << >> ELSE LiveLocks(old, now))
                  ELSE old]
  IN [g EXCEPT !.donated = don1, !.c12drift = drift, !.locks = locks, !.vest = VestGhostNext(k, e, s, t, g.vest),
                 !.batch = BatchGhostNext(k, e, g.batch)]

\* ghost state at the start of a trace / schedule
GhostStart(s) == [GhostInit(s) EXCEPT !.vest = VestGhostInit(s)]

-----------------------------------------------------------------------------
(* C15 — supply rules, on every event *)
ExternalDenom(s, t, d) ==
  /\ d \notin {"uelys", "ueden", "uedenb"}
  /\ d \notin ShareDenoms(s) \cup ShareDenoms(t)
  /\ d # s.stable.shareDenom

C15StepChecks(k, e, s, t, g) ==
  LET ds == AllDenoms(s) \cup AllDenoms(t)
      \* explicit burns: the burner module destroys whatever sits at the zero address (the burn address) at its epoch end
      \* - but only of denoms that genesis / governance listed for burning (s.burner.listed: the denoms the scene registered bank
      \* metadata for); an external asset that became burnable through protocol operation is destroyed, not "explicitly burned"
      Listed(d) == ("burner" \notin DOMAIN s) \/ ("listed" \notin DOMAIN s.burner) \/ (\E i \in DOMAIN s.burner.listed : s.burner.listed[i] = d)
      BurnedFromZero(d) == k \in {"Begin", "End"} /\ DSupply(s, t, d) \prec Zero /\ DSupply(s, t, d) = DBal(s, t, "zero", d) /\ Listed(d)
      badExt == {d \in ds : ExternalDenom(s, t, d) /\ Supply(t, d) # Supply(s, d) /\ ~BurnedFromZero(d)}
      dE == DSupply(s, t, "uelys")
      dEb == dE -- ProviderRelease(k, s, t, "uelys")     \* the supply change that is not the provider account's vesting release
      release == k = "Tx" /\ e.ok /\ e.name \in {"commitment.MsgClaimVesting", "commitment.MsgVestNow"}
      \* shares of pool p change only together with a deposit / withdrawal of the same pool
      ps == Pools(s) \cup Pools(t)
      DShares(p) == (IF p \in Pools(t) THEN Supply(t, ShareDenom(t, p)) ELSE Zero) -- (IF p \in Pools(s) THEN Supply(s, ShareDenom(s, p)) ELSE Zero)
      DRes(p, d) == Reserve(t, p, d) -- Reserve(s, p, d)
      As(p) == (IF p \in Pools(t) THEN PoolAssets(t, p) ELSE {}) \cup (IF p \in Pools(s) THEN PoolAssets(s, p) ELSE {})
      badShare == {p \in ps :
                     \/ DShares(p) \succ Zero /\ ~(\A d \in As(p) : DRes(p, d) \succeq Zero)
                     \/ DShares(p) \succ Zero /\ ~(\E d \in As(p) : DRes(p, d) \succ Zero)
                     \/ DShares(p) \prec Zero /\ ~(\A d \in As(p) : DRes(p, d) \preceq Zero)}
      dV == DSupply(s, t, s.stable.shareDenom)
      dCash == (VaultCash(t) -- Don(GhostNext(k, e, s, t, g), "mod:stablestake", s.stable.depositDenom)) -- (VaultCash(s) -- Don(g, "mod:stablestake", s.stable.depositDenom))
  IN { Chk("C15", "C15.step.external_supply_constant", TRUE, badExt = {}, Bad(badExt)),
       \* (a release is a vesting claim by its owner, or - in the begin blocker of a provider epoch - estaking's claim for the provider
       \* reward account, ProviderRelease; a burner epoch may end in the same begin blocker, so the two are told apart)
       Chk("C15", "C15.step.native_minted_only_by_vesting_release", dE \succ Zero \/ release,
           dEb \succ Zero => (release /\ dEb = DBal(s, t, e.sender, "uelys")), Str(dE)),
       Chk("C15", "C15.step.native_burned_only_from_zero_address", dEb \prec Zero,
           dEb \prec Zero => (k \in {"Begin", "End"} /\ dEb = DBal(s, t, "zero", "uelys")), Str(dE)),
       Chk("C15", "C15.step.pool_shares_only_against_deposits_withdrawals", \E p \in ps : DShares(p) # Zero, badShare = {}, Bad(badShare)),
       Chk("C15", "C15.step.vault_shares_only_against_deposits_withdrawals", dV # Zero,
           /\ dV \succ Zero => (TxOK(k, e, "stablestake.MsgBond") /\ dCash \succ Zero)
           /\ dV \prec Zero => (TxOK(k, e, "stablestake.MsgUnbond") /\ dCash \prec Zero), Str(dV)) }

-----------------------------------------------------------------------------
(* C12 — delta form of total = sum of accounts, with the two recorded known findings *)
C12StepChecks(k, e, s, t, g) ==
  LET ds == CommittedDenoms(s) \cup CommittedDenoms(t)
      as == CommitAccts(s) \cup CommitAccts(t)
      Inc(d) == SumOver(as, LAMBDA a : Max0(Committed(t, a, d) -- Committed(s, a, d)))
      Dec(d) == SumOver(as, LAMBDA a : Max0(Committed(s, a, d) -- Committed(t, a, d)))
      DT(d)  == TotalCommitted(t, d) -- TotalCommitted(s, d)
      bad    == {d \in ds : DT(d) # Inc(d) -- Dec(d)}
      \* signature of known finding C12-1: every uncommitted amount was ADDED to the total
      kf1    == {d \in bad : Dec(d) \succ Zero /\ DT(d) = Inc(d) ++ Dec(d)}
      \* signature of known finding C12-2: EdenB burnt from the committed ledger without touching the total
      kf2    == {d \in bad : d = "uedenb" /\ Dec(d) \succ Zero /\ DT(d) = Inc(d)}
      now    == t.chain.t
      \* live lock-ups survive every step that is not a leveraged-LP force close of that position address
      forceClose == k = "Begin" \/ (k = "Tx" /\ e.name = "leveragelp.MsgClosePositions")
      badLock == {<<a, d>> \in UNION {{<<a, d>> : d \in DOMAIN s.commit.acct[a].committed} : a \in CommitAccts(s)} :
                    /\ ~(forceClose /\ s.commit.acct[a].kind = "levpos")
                    /\ \E i \in DOMAIN Lockups(s, a, d) :
                          /\ Lockups(s, a, d)[i].until > now
                          /\ ~\E j \in DOMAIN Lockups(t, a, d) : Lockups(t, a, d)[j] = Lockups(s, a, d)[i]}
      g2 == GhostNext(k, e, s, t, g)
      pairs == LockPairs(s) \cup LockPairs(t)
      \* tokens under a live lock (by the specification's ledger) were not withdrawn by a non-liquidation step
      badWithdraw == {x \in pairs : /\ Committed(t, x[1], x[2]) \prec Committed(s, x[1], x[2])
                                    /\ ~(forceClose /\ x[1] \in CommitAccts(s) /\ s.commit.acct[x[1]].kind = "levpos")
                                    /\ Committed(t, x[1], x[2]) \prec LockedSum(GLocks(g, x[1], x[2]), now)}
      \* the implementation's recorded live lock-ups agree with the specification's ledger
      badLedger == {x \in pairs : LockedSum(Lockups(t, x[1], x[2]), now) # LockedSum(GLocks(g2, x[1], x[2]), now)}
      \* one step can show both recorded findings (uncommitting Eden burns EdenB): they are judged per denom
      bad1   == bad \ kf2
      bad2   == bad \cap kf2
  IN { ChkK("C12", "C12.step.total_tracks_accounts", \E d \in ds : Inc(d) # Zero \/ Dec(d) # Zero, bad1 = {}, Bad(bad1),
            IF bad1 # {} /\ bad1 \subseteq kf1 THEN "C12-uncommit-adds-to-total" ELSE ""),
       ChkK("C12", "C12.step.total_tracks_accounts", bad2 # {}, bad2 = {}, Bad(bad2), "C12-edenb-burn-skips-total"),
       Chk("C12", "C12.step.live_lockups_preserved", \E a \in CommitAccts(s) : \E d \in DOMAIN s.commit.acct[a].committed : Lockups(s, a, d) # <<>>,
           badLock = {}, Bad(badLock)),
       Chk("C12", "C12.step.locked_tokens_not_withdrawn_before_expiry", \E x \in pairs : Committed(t, x[1], x[2]) \prec Committed(s, x[1], x[2]),
           badWithdraw = {}, Bad(badWithdraw)),
       Chk("C12", "C12.step.lock_ledger_matches_specification", pairs # {}, badLedger = {}, Bad(badLedger)) }

-----------------------------------------------------------------------------
(* C18 — transaction isolation: the ante handler moves only the fee; the state the   *)
(* end-blocker starts from is exactly the state after the last transaction result    *)
(* (so a failed transaction left nothing behind)                                      *)
StateSansBank(s) == [x \in DOMAIN s \ {"bank", "chain"} |-> s[x]]
C18StepChecks(k, e, s, t, g) ==
  LET fee == e.args.fee
      payer == e.sender
      accts == Accounts(s) \cup Accounts(t)
      badBank == {<<a, d>> \in accts \X (AllDenoms(s) \cup AllDenoms(t)) :
                    DBal(s, t, a, d) # (IF a = payer THEN Zero -- Get(fee, d, Zero) ELSE IF a = "mod:fee_collector" THEN Get(fee, d, Zero) ELSE Zero)}
  IN IF k = "Ante" THEN
       { Chk("C18", "C18.step.ante_moves_only_the_fee", TRUE, badBank = {} /\ StateSansBank(s) = StateSansBank(t), Bad(badBank)) }
     ELSE IF k = "PreEnd" THEN
       { Chk("C18", "C18.step.block_state_is_state_after_last_tx", TRUE, [s EXCEPT !.chain = t.chain] = t, "") }
     ELSE IF k = "Tx" /\ ~e.ok THEN
       { Chk("C18", "C18.step.failed_tx_changes_nothing", TRUE, s = t, "") }
     ELSE IF k = "Halt" THEN
       { Chk("C18", "C18.block_processing_never_fails", TRUE, FALSE, e.log) }
     ELSE {}

-----------------------------------------------------------------------------
(* Ledger family: per-message contracts *)

\* value of a pool at oracle prices (Dec mantissa per base unit), from the accounted balances where the pool has an accounted pool
PoolBal(s, p, d) == IF p \in DOMAIN s.acc /\ d \in DOMAIN s.acc[p].total THEN s.acc[p].total[d] ELSE Reserve(s, p, d)
HasPrices(s, p)  == \A d \in PoolAssets(s, p) : d \in DOMAIN s.oracle.lookupDenom /\ s.oracle.lookupDenom[d] \succ Zero
PoolTVL(s, p)    == SumOver(PoolAssets(s, p), LAMBDA d : PoolBal(s, p, d) ** s.oracle.lookupDenom[d])
OracleSingle(e, s, p) == s.amm.pools[p].useOracle /\ HasPrices(s, p) /\ Arg(e, "mode", "") = "single"
BalSingle(e, s, t, p) ==
  /\ ~s.amm.pools[p].useOracle
  /\ Arg(e, "mode", "") = "single"
  /\ Cardinality(PoolAssets(s, p)) = 2
  /\ \A y \in PoolAssets(s, p) : s.amm.pools[p].assets[y].weightI > 0
  /\ Cardinality({z \in PoolAssets(s, p) : Reserve(t, p, z) # Reserve(s, p, z)}) = 1

\* amm.MsgJoinPool: shares minted = response; committed to the sender; tokens taken = response
JoinChecks(k, e, s, t, g) ==
  IF ~TxOK(k, e, "amm.MsgJoinPool") THEN {} ELSE
  LET p == e.args.pool  u == e.sender  sd == ShareDenom(s, p)
      minted == s.amm.pools[p].shares
  IN { Chk("C02", "C02.step.join_mints_response_shares", TRUE,
           /\ t.amm.pools[p].shares -- s.amm.pools[p].shares = e.resp.shareOut
           /\ Committed(t, u, sd) -- Committed(s, u, sd) = e.resp.shareOut
           /\ e.resp.shareOut \succeq Zero, ""),      \* (a dust join into a nearly emptied pool may mint nothing: the joiner's loss only)
       \* the pool books exactly the response's tokens; the joiner pays them, less a weight-recovery bonus that can
       \* only come out of the pool's rebalance treasury (oracle pools)
       Chk("C02", "C02.step.join_takes_response_tokens", TRUE,
           \A d \in PoolAssets(s, p) :
              /\ Reserve(t, p, d) -- Reserve(s, p, d) = Get(e.resp.tokenIn, d, Zero)
              /\ DBal(s, t, u, d) \succeq Zero -- Get(e.resp.tokenIn, d, Zero)
              /\ DBal(s, t, u, d) ++ DBal(s, t, s.amm.pools[p].treasury, d) = Zero -- Get(e.resp.tokenIn, d, Zero)
              /\ (DBal(s, t, s.amm.pools[p].treasury, d) # Zero => s.amm.pools[p].useOracle), ""),
       Chk("C05", "C05.step.join_within_max_in", TRUE,
           \A d \in DOMAIN e.resp.tokenIn : e.resp.tokenIn[d] \preceq Get(e.args.maxIn, d, Zero), ""),
       \* all-asset join (no swap): shares are minted pro rata to the pool's own reserves, one base unit per asset allowed:
       \*   minted * reserve_d <= (in_d + 1) * shares   for every asset
       Chk("C05", "C05.step.all_asset_join_mints_no_more_than_pro_rata", Arg(e, "mode", "") = "all",
           Arg(e, "mode", "") = "all" =>
              \A d \in PoolAssets(s, p) : e.resp.shareOut ** Reserve(s, p, d) \preceq (Get(e.resp.tokenIn, d, Zero) ++ One) ** s.amm.pools[p].shares,
           Str(e.resp.shareOut)),
       \* single-sided join of a constant-product pool (two assets, small integer weights): the per-share value of the
       \* liquidity never decreases, i.e. (S'/S)^W <= (r'/r)^w up to the power approximation's 1e-8:
       Chk("C05", "C05.step.weighted_single_join_mints_no_more_than_formula", BalSingle(e, s, t, p),
           BalSingle(e, s, t, p) =>
              LET d == CHOOSE x \in PoolAssets(s, p) : Reserve(t, p, x) # Reserve(s, p, x)
                  w == s.amm.pools[p].assets[d].weightI
                  W == FoldSet(LAMBDA x, acc : acc + s.amm.pools[p].assets[x].weightI, 0, PoolAssets(s, p))
              IN Pow(t.amm.pools[p].shares ** N(100000000), W) ** Pow(Reserve(s, p, d), w)
                   \preceq Pow(s.amm.pools[p].shares ** N(100000001), W) ** Pow(Reserve(t, p, d), w),
           Str(e.resp.shareOut)),
       \* single-sided join of an oracle pool: the minted shares are worth no more than the deposit at the oracle prices in force,
       \* measured against the pool as it is when the join executes (accounted balances where the pool has an accounted pool),
       \* one base unit allowed:   minted * TVL <= (value deposited) * shares
       Chk("C05", "C05.step.oracle_join_mints_no_more_than_value_deposited", OracleSingle(e, s, p),
           OracleSingle(e, s, p) =>
              e.resp.shareOut ** PoolTVL(s, p) \preceq
                 SumOver(PoolAssets(s, p), LAMBDA d : (Get(e.resp.tokenIn, d, Zero) ++ One) ** s.oracle.lookupDenom[d]) ** s.amm.pools[p].shares,
           Str(e.resp.shareOut)) }

\* amm.MsgExitPool: shares burned = request; tokens paid = response; reserves never emptied
ExitChecks(k, e, s, t, g) ==
  IF ~TxOK(k, e, "amm.MsgExitPool") THEN {} ELSE
  LET p == e.args.pool  u == e.sender  sd == ShareDenom(s, p) IN
     { Chk("C02", "C02.step.exit_burns_requested_shares", TRUE,
           /\ s.amm.pools[p].shares -- t.amm.pools[p].shares = e.args.shareIn
           /\ Committed(s, u, sd) -- Committed(t, u, sd) = e.args.shareIn, ""),
       Chk("C02", "C02.step.exit_pays_response_tokens", TRUE,
           \A d \in PoolAssets(s, p) : DBal(s, t, u, d) = Get(e.resp.tokenOut, d, Zero), ""),
       Chk("C05", "C05.step.exit_never_empties_pool", TRUE,
           /\ \A d \in PoolAssets(t, p) : Reserve(t, p, d) \succ Zero
           /\ t.amm.pools[p].shares \succ Zero, ""),
       Chk("C12", "C12.step.uncommit_needs_balance", TRUE, e.args.shareIn \preceq Committed(s, u, sd), "") }

\* shares move only on the listed message kinds
ShareMoveChecks(k, e, s, t, g) ==
  LET ps == Pools(s) \cap Pools(t)
      moved == {p \in ps : s.amm.pools[p].shares # t.amm.pools[p].shares}
      allowed == \/ k \in {"Begin"}                       \* leveraged-LP sweep may liquidate (exit on behalf of a position)
                 \/ k = "Tx" /\ e.name \in {"amm.MsgJoinPool", "amm.MsgExitPool", "leveragelp.MsgOpen", "leveragelp.MsgClose",
                                             "leveragelp.MsgClosePositions", "tradeshield.MsgExecuteOrders"}
  IN { Chk("C02", "C02.step.shares_change_only_by_join_or_exit", moved # {}, moved # {} => allowed, Bad(moved)) }

\* stablestake.MsgBond / MsgUnbond
BondChecks(k, e, s, t, g) ==
  IF TxOK(k, e, "stablestake.MsgBond") THEN
    LET u == e.sender  dep == s.stable.depositDenom  sh == s.stable.shareDenom IN
    { Chk("C06", "C06.step.bond_adds_deposit_to_cash_and_value", TRUE,
          /\ t.stable.totalValue -- s.stable.totalValue = e.args.amt
          /\ DBal(s, t, "mod:stablestake", dep) = e.args.amt
          /\ DBal(s, t, u, dep) = Zero -- e.args.amt, ""),
      Chk("C07", "C07.step.bond_mints_committed_shares", TRUE,
          DSupply(s, t, sh) = Committed(t, u, sh) -- Committed(s, u, sh) /\ DSupply(s, t, sh) \succeq Zero, "") }
  ELSE IF TxOK(k, e, "stablestake.MsgUnbond") THEN
    LET u == e.sender  dep == s.stable.depositDenom  sh == s.stable.shareDenom
        paid == DBal(s, t, u, dep) IN
    { Chk("C06", "C06.step.unbond_pays_from_cash_and_value", TRUE,
          /\ s.stable.totalValue -- t.stable.totalValue = paid
          /\ DBal(s, t, "mod:stablestake", dep) = Zero -- paid
          /\ paid \succeq Zero, ""),
      Chk("C07", "C07.step.unbond_burns_requested_shares", TRUE,
          /\ DSupply(s, t, sh) = Zero -- e.args.shares
          /\ Committed(s, u, sh) -- Committed(t, u, sh) = e.args.shares, ""),
      Chk("C12", "C12.step.uncommit_needs_balance", TRUE, e.args.shares \preceq Committed(s, u, sh), "") }
  ELSE {}

-----------------------------------------------------------------------------
(* Positions family: C08 C09 C10 (C11 is an invariant) *)

ONE18 == Pow(N(10), 18)
\* a * (1 + pct/100) on Dec mantissas
Widen(a, pct) == (a ** N(100 + pct)) // N(100)

LevKeysOfOwner(s, u) == {k \in LevPositions(s) : s.lev.positions[k].owner = u}
LevAltered(s, t, k)  == \/ k \notin LevPositions(t)
                        \/ t.lev.positions[k].lp # s.lev.positions[k].lp
                        \/ t.lev.positions[k].collateral # s.lev.positions[k].collateral
\* force close is allowed: health at or below the safety factor, or the LP price has reached the stop-loss.
\* The health is the real GetPositionHealth probed on the pre-state; between the probe and the code's own
\* evaluation only interest accrual and (inside one message) earlier closes intervene, hence the 5 % band:
\* the check is decisive only for positions that were clearly healthy.
LevCloseAllowed(s, k) ==
  LET pos == s.lev.positions[k]
      pool == s.lev.pools[pos.pool] IN
  \/ pos.probeHealth \prec Zero                       \* probe failed: undecided
  \/ pos.probeHealth \preceq Widen(s.lev.safetyFactor, 5)
  \/ pos.stopLoss \succ Zero /\ (pool.lpPrice \prec Zero \/ pool.lpPrice \preceq Widen(pos.stopLoss, 5))

MtpAltered(s, t, k) == \/ k \notin Mtps(t)
                       \/ t.perp.mtps[k].collateral # s.perp.mtps[k].collateral
                       \/ t.perp.mtps[k].liab # s.perp.mtps[k].liab
\* oracle price (Dec mantissa) of the trading asset of an MTP, "none" if there is no price
TradingPrice(s, m) ==
  LET d == m.tradingAsset IN
  IF d \in DOMAIN s.oracle.assetInfo /\ s.oracle.assetInfo[d].display \in DOMAIN s.oracle.lookup /\ s.oracle.lookup[s.oracle.assetInfo[d].display].found
    THEN s.oracle.lookup[s.oracle.assetInfo[d].display].price ELSE "none"
MtpCloseAllowed(s, k) ==
  LET m == s.perp.mtps[k]
      px == TradingPrice(s, m) IN
  \/ m.probeHealth \prec Zero
  \/ m.probeHealth \preceq Widen(s.perp.safetyFactor, 5)
  \/ px = "none"
  \/ m.stopLoss \succ Zero /\ (IF m.side = "long" THEN px \preceq m.stopLoss ELSE px \succeq m.stopLoss)
  \/ m.takeProfit \succ Zero /\ (IF m.side = "long" THEN px \succeq m.takeProfit ELSE px \preceq m.takeProfit)

\* Sub-step judgement (traces only).  A build-tag guarded hook in /repo lets the harness observe the state before the first and
\* after every position that a leveragelp sweep, a leveragelp MsgClosePositions or a perpetual MsgClosePositions processes.
\* Between two such observations the code looks at ONE position, in exactly the state of the earlier observation, so the
\* probe IS the code's own evaluation: leveraged-LP health needs no band at all (what an earlier close of the same sweep did to
\* the pool is already in the state); the perpetual probe settles interest and funding before it measures, as the code does.
LevCloseAllowedExact(s, k) ==
  LET pos == s.lev.positions[k]
      pool == s.lev.pools[pos.pool] IN
  \/ pos.probeHealth \prec Zero
  \/ pos.probeHealth \preceq s.lev.safetyFactor
  \/ pos.stopLoss \succ Zero /\ (pool.lpPrice \prec Zero \/ pool.lpPrice \preceq Widen(pos.stopLoss, 1))
MtpCloseAllowedExact(s, k) ==
  LET m == s.perp.mtps[k]
      px == TradingPrice(s, m) IN
  \/ m.probeHealth \prec Zero
  \/ m.probeHealth \preceq s.perp.safetyFactor
  \/ px = "none"
  \/ m.stopLoss \succ Zero /\ (IF m.side = "long" THEN px \preceq m.stopLoss ELSE px \succeq m.stopLoss)
  \/ m.takeProfit \succ Zero /\ (IF m.side = "long" THEN px \succeq m.takeProfit ELSE px \preceq m.takeProfit)
SubChecks(s, t) ==
  LET badLev == {x \in LevPositions(s) : LevAltered(s, t, x) /\ ~LevCloseAllowedExact(s, x)}
      badMtp == {x \in Mtps(s) : MtpAltered(s, t, x) /\ ~MtpCloseAllowedExact(s, x)}
  IN { Chk("C10", "C10.sub.lev_position_altered_between_two_looks_only_when_allowed", \E x \in LevPositions(s) : LevAltered(s, t, x), badLev = {}, Bad(badLev)),
       Chk("C10", "C10.sub.perp_position_altered_between_two_looks_only_when_allowed", \E x \in Mtps(s) : MtpAltered(s, t, x), badMtp = {}, Bad(badMtp)) }
\* the whole-step checks these replace when a step carries sub-step observations
CoarseThirdParty == {"C10.step.lev_third_party_close_only_when_allowed", "C10.step.perp_third_party_close_only_when_allowed"}

PositionChecks(k, e, s, t, g) ==
  LET levThird == k = "Begin" \/ (k = "Tx" /\ e.name = "leveragelp.MsgClosePositions")
      \* a long block-time gap lets arbitrary interest accrue before the sweep looks at a position: undecided
      gapOK == t.chain.t - s.chain.t <= 86400 * 30
      badLev == {x \in LevPositions(s) : LevAltered(s, t, x) /\ ~LevCloseAllowed(s, x)}
      perpThird == k = "Tx" /\ e.name = "perpetual.MsgClosePositions"
      badMtp == {x \in Mtps(s) : MtpAltered(s, t, x) /\ ~MtpCloseAllowed(s, x)}
      owners == {s.lev.positions[x].owner : x \in LevPositions(s)} \cup {s.perp.mtps[x].owner : x \in Mtps(s)}
      untouchedOwners == {u \in owners : (\A x \in LevKeysOfOwner(s, u) : ~LevAltered(s, t, x))
                                          /\ (\A z \in {y \in Mtps(s) : s.perp.mtps[y].owner = u} : ~MtpAltered(s, t, z))
                                          /\ (u # e.sender)}
      badFunds == {u \in untouchedOwners : Get(s.bank, u, << >>) # Get(t.bank, u, << >>)}
      \* (a dust consolidating open can add collateral without minting a single share)
      newLev == {x \in LevPositions(t) : \/ x \notin LevPositions(s) \/ t.lev.positions[x].lp # s.lev.positions[x].lp
                                         \/ t.lev.positions[x].collateral # s.lev.positions[x].collateral \/ t.lev.positions[x].liab # s.lev.positions[x].liab}
      newMtp == {x \in Mtps(t) : x \notin Mtps(s) \/ t.perp.mtps[x].custody \succ s.perp.mtps[x].custody}
  IN (IF levThird /\ gapOK THEN
        { Chk("C10", "C10.step.lev_third_party_close_only_when_allowed", \E x \in LevPositions(s) : LevAltered(s, t, x), badLev = {}, Bad(badLev)) }
      ELSE {})
     \cup
     (IF perpThird THEN
        { Chk("C10", "C10.step.perp_third_party_close_only_when_allowed", \E x \in Mtps(s) : MtpAltered(s, t, x), badMtp = {}, Bad(badMtp)) }
      ELSE {})
     \cup
     (IF (levThird \/ perpThird) /\ k = "Tx" THEN
        { Chk("C10", "C10.step.untouched_owners_keep_their_funds", owners # {}, badFunds = {}, Bad(badFunds)) }
      ELSE {})
     \cup
     (IF TxOK(k, e, "leveragelp.MsgOpen") THEN
        { Chk("C10", "C10.step.lev_open_starts_healthy", TRUE,
              /\ newLev # {}
              /\ \A x \in newLev : /\ t.lev.positions[x].owner = e.sender
                                   /\ t.lev.positions[x].health \succ t.lev.safetyFactor
                                   /\ (t.lev.positions[x].probeHealth \prec Zero \/ t.lev.positions[x].probeHealth \succ t.lev.safetyFactor), Bad(newLev)) }
      ELSE {})
     \cup
     (IF TxOK(k, e, "perpetual.MsgOpen") THEN
        { Chk("C10", "C10.step.perp_open_starts_healthy", TRUE,
              \A x \in Mtps(t) : (t.perp.mtps[x].id = Resp(e, "id", "") /\ t.perp.mtps[x].owner = e.sender) =>
                                   /\ t.perp.mtps[x].health \succ t.perp.safetyFactor
                                   \* the real health function on the final state of the transaction, position as stored (unpaid interest is
                                   \* a liability in it; SETTLING that interest - paid from custody at the oracle price while custody is valued
                                   \* with slippage - can lower the figure, which is "interest that had already accrued", not the open's doing)
                                   /\ (t.perp.mtps[x].plainHealth \prec Zero \/ t.perp.mtps[x].plainHealth \succ t.perp.safetyFactor), Resp(e, "id", "")) }
      ELSE {})
     \cup
     \* C08: a full close / liquidation removes the position and leaves nothing committed at its address
     (IF TxOK(k, e, "leveragelp.MsgClose") THEN
        LET key == e.sender \o "/" \o e.args.id IN
        \* (CloseLong closes the WHOLE position, whatever was requested, when its health - interest settled, which is what the
        \* probe on the pre-state computes - is at or below the safety factor: position_close.go "close full amount")
        { Chk("C08", "C08.step.close_reduces_position_by_requested_lp", key \in LevPositions(s),
              key \in LevPositions(s) =>
                 LET ps == s.lev.positions[key]
                     forced == ps.probeHealth \succeq Zero /\ ps.probeHealth \preceq s.lev.safetyFactor IN
                 IF e.args.lp = ps.lp \/ forced
                   THEN key \notin LevPositions(t) /\ \A d \in ShareDenoms(t) : Committed(t, ps.posAddr, d) = Zero
                   ELSE key \in LevPositions(t) /\ ps.lp -- t.lev.positions[key].lp = e.args.lp, key) }
      ELSE {})

-----------------------------------------------------------------------------
(* C03 at the level of the whole keeper flow (fee skims included): on a constant-product pool whose share  *)
(* supply did not change in the step (swaps only), the weighted product of the reserves does not decrease,  *)
(* up to one base unit per reserve and the power approximation's 1e-8 precision when the weights differ.   *)
(* By induction this is what makes round trips and split trades unprofitable.                              *)
RECURSIVE GcdI(_, _)
GcdI(a, b) == IF b = 0 THEN a ELSE GcdI(b, a % b)
KProductChecks(k, e, s, t, g) ==
  LET ps == {p \in Pools(s) \cap Pools(t) : /\ ~s.amm.pools[p].useOracle
                                            /\ s.amm.pools[p].shares = t.amm.pools[p].shares
                                            /\ Cardinality(PoolAssets(s, p)) = 2
                                            /\ \E d \in PoolAssets(s, p) : Reserve(s, p, d) # Reserve(t, p, d)}
      Dropped(p) == LET d1 == CHOOSE d \in PoolAssets(s, p) : TRUE
                    d2 == CHOOSE d \in PoolAssets(s, p) : d # d1
                    w1 == s.amm.pools[p].assets[d1].weightI  w2 == s.amm.pools[p].assets[d2].weightI
                    gg == GcdI(w1, w2)  a == w1 \div gg  b == w2 \div gg
                    lhs == Pow((Reserve(t, p, d1) ++ One) ** (IF a = b THEN One ELSE N(100000000)), a) ** Pow((Reserve(t, p, d2) ++ One) ** (IF a = b THEN One ELSE N(100000000)), b)
                    rhs == Pow(Reserve(s, p, d1) ** (IF a = b THEN One ELSE N(99999999)), a) ** Pow(Reserve(s, p, d2) ** (IF a = b THEN One ELSE N(99999999)), b)
                IN lhs \prec rhs
      bad == {p \in ps : Dropped(p)}
  IN { Chk("C03", "C03.step.weighted_product_never_decreases", ps # {}, bad = {}, Bad(bad)) }

-----------------------------------------------------------------------------
(* C13 — step contracts of the reward accounting *)
C13StepChecks(k, e, s, t, g) ==
  LET keys == RewardKeys(s) \cup RewardKeys(t)
      isClaim == TxOK(k, e, "masterchef.MsgClaimRewards")
      \* accounts whose pending rewards this step may pay out (leaving only the sub-unit remainder)
      MayClaim(a) == \/ isClaim /\ a = e.sender
                     \/ /\ a \in CommitAccts(s) /\ s.commit.acct[a].kind = "levpos"
                        /\ (k = "Begin" \/ (k = "Tx" /\ e.name \in {"leveragelp.MsgClaimRewards", "leveragelp.MsgClose", "leveragelp.MsgClosePositions", "leveragelp.MsgOpen"}))
      badTx == {x \in keys : /\ ClaimableM(t, x) # ClaimableM(s, x)
                             /\ ~(MayClaim(x[3]) /\ ClaimableM(t, x) = Zero)}   \* a claim pays the integer part and drops the sub-unit remainder
      ds == (RewardDenoms(s) \cup RewardDenoms(t)) \ VirtualDenoms
      Credited(d) == SumOver({x \in keys : x[2] = d}, LAMBDA x : ClaimableM(t, x) -- ClaimableM(s, x))
      \* external incentives active in this block were funded in advance: their per-block amount is part of "funded for that block"
      Funded(d) == SumOver({i \in DOMAIN s.mc.incentives : s.mc.incentives[i].denom = d /\ s.mc.incentives[i].from < t.chain.h /\ t.chain.h <= s.mc.incentives[i].to},
                           LAMBDA i : s.mc.incentives[i].perBlock)
      \* (each account's claimable mantissa is floored separately: the floors of the differences can add up to one mantissa
      \* unit - 1e-18 base units - per account above the credited amount; found by TLC on MC_rewards)
      badEnd == {d \in ds : Credited(d) \succ ((DBal(s, t, "mod:masterchef", d) ++ Funded(d)) ** E18) ++ N(Cardinality({x \in keys : x[2] = d}))}
      paid(d) == SumOver({x \in RewardKeys(s) : x[2] = d /\ x[3] = e.sender /\ ClaimableM(t, x) # ClaimableM(s, x)}, LAMBDA x : ClaimableM(s, x) // E18)
      badPay == {d \in ds : DBal(s, t, e.sender, d) # paid(d) \/ DBal(s, t, "mod:masterchef", d) # Zero -- paid(d)}
  IN (IF k \in {"Tx", "Begin", "Ante", "PreEnd"} THEN
        { Chk("C13", "C13.step.only_distribution_changes_credited_rewards", keys # {}, badTx = {}, Bad(badTx)) }
      ELSE {})
     \cup
     (IF k = "End" THEN
        { Chk("C13", "C13.step.block_credit_within_collected_or_funded", keys # {}, badEnd = {},
              IF badEnd = {} THEN "" ELSE ToString({<<d, Credited(d), DBal(s, t, "mod:masterchef", d), Funded(d)>> : d \in badEnd})) }
      ELSE {})
     \cup
     (IF IsTx(k, e, "masterchef.MsgClaimRewards") THEN
        { Chk("C13", "C13.step.claim_always_succeeds", e.stage = "msgs", e.stage = "msgs" => e.ok, e.log) }
      ELSE {})
     \cup
     (IF isClaim THEN
        { Chk("C13", "C13.step.claim_pays_exactly_the_credited_amount", TRUE, badPay = {}, Bad(badPay)) }
      ELSE {})

-----------------------------------------------------------------------------
(* C07 — vault shares are issued / redeemed at the fair rate; lending is capped at 90 % *)
C07StepChecks(k, e, s, t, g) ==
  LET sh == s.stable.shareDenom
      S0 == Supply(s, sh)  S1 == Supply(t, sh)
      TV0 == s.stable.totalValue  TV1 == t.stable.totalValue
      Value(TV, S, n) == (n ** TV) // S
      \* "one share's worth": ceil(rate), at least 1
      Worth == IF S0 \succ Zero /\ S1 \succ Zero THEN MaxN(MaxN((TV0 ++ S0 -- One) // S0, (TV1 ++ S1 -- One) // S1), One) ELSE One
      holders == {a \in CommitAccts(s) : Committed(s, a, sh) \succ Zero /\ Committed(t, a, sh) = Committed(s, a, sh)}
      badVal == {a \in holders : Value(TV1, S1, Committed(s, a, sh)) \prec Value(TV0, S0, Committed(s, a, sh)) -- Worth}
      accrued == SumOver(Debtors(s) \cup Debtors(t), LAMBDA a :
                    (IF a \in Debtors(t) THEN t.stable.debts[a].stacked ELSE Zero) -- (IF a \in Debtors(s) THEN s.stable.debts[a].stacked ELSE Zero))
      lent == SumPrincipal(t) \succ SumPrincipal(s)
      m == S1 -- S0
      pay == DBal(s, t, e.sender, s.stable.depositDenom)
  IN (IF S0 \succ Zero /\ S1 \succ Zero THEN
        { Chk("C07", "C07.step.redemption_value_of_other_lenders_never_falls", holders # {}, badVal = {}, Bad(badVal)) }
      ELSE {})
     \cup
     (IF TxOK(k, e, "stablestake.MsgBond") THEN
        { Chk("C07", "C07.step.bond_issues_no_more_than_fair_shares", TRUE,
              IF S0 = Zero THEN m = e.args.amt ELSE (m -- One) ** TV0 \preceq e.args.amt ** S0, Str(m)) }
      ELSE {})
     \cup
     \* "depositing then immediately withdrawing never returns more than was deposited": the shares just minted, redeemed at the
     \* rate the vault shows right after the deposit (what an immediate MsgUnbond pays, see the next check), are worth no more
     \* than the deposit - so nothing may raise the vault value inside the bond itself AFTER the shares were priced
     (IF TxOK(k, e, "stablestake.MsgBond") /\ S1 \succ Zero THEN
        { Chk("C07", "C07.step.bond_then_immediate_unbond_returns_no_more_than_deposited", TRUE,
              Value(TV1, S1, m) \preceq e.args.amt ++ Worth, Str(Value(TV1, S1, m))) }
      ELSE {})
     \cup
     (IF TxOK(k, e, "stablestake.MsgUnbond") THEN
        { Chk("C07", "C07.step.unbond_pays_no_more_than_fair_value", TRUE,
              (pay -- One) ** S0 \preceq e.args.shares ** TV0, Str(pay)) }
      ELSE {})
     \cup
     (IF lent THEN
        { Chk("C07", "C07.step.loans_capped_at_90_percent_of_vault_value", TRUE,
              \* as the code checks it: against the vault value before the interest accrued by this very step
              ((TV1 -- accrued) -- VaultCash(t)) ** N(10) \preceq (TV1 -- accrued) ** N(9), "") }
      ELSE {})

-----------------------------------------------------------------------------
LedgerChecks(k, e, s, t, g) ==
  JoinChecks(k, e, s, t, g) \cup ExitChecks(k, e, s, t, g) \cup ShareMoveChecks(k, e, s, t, g) \cup BondChecks(k, e, s, t, g)

StepChecks(k, e, s, t, g) ==
  C15StepChecks(k, e, s, t, g) \cup C12StepChecks(k, e, s, t, g) \cup C18StepChecks(k, e, s, t, g) \cup LedgerChecks(k, e, s, t, g)
    \cup PositionChecks(k, e, s, t, g) \cup KProductChecks(k, e, s, t, g) \cup C13StepChecks(k, e, s, t, g) \cup C07StepChecks(k, e, s, t, g)
    \cup C14StepChecks(k, e, s, t, g.vest) \cup C16StepChecks(k, e, s, t) \cup C04StepChecks(k, e, s, t, g.batch) \cup C20StepChecks(k, e, s, t) \cup C17StepChecks(k, e, s, t)
    \cup (IF "epochs" \in DOMAIN s /\ "epochs" \in DOMAIN t THEN ExtStepChecks(k, e, s, t) \cup RegistryStepChecks(k, e, s, t) ELSE {})

\* every state invariant of the specification (Invariants.tla + the sub-machines)
AllInvChecks(s, g) == InvChecks(s, g) \cup InvC14(s, g.vest) \cup InvC16(s) \cup InvC20(s)
=============================================================================
