-------------------------------- MODULE Batch -------------------------------
(***************************************************************************)
(* C04 — queued swaps.  A swap message is only QUEUED by its transaction   *)
(* (after a dry run) and settled by the end-of-block batch.  The contract  *)
(* is stated on three kinds of steps:                                      *)
(*   Tx   an accepted request moves no funds and adds one queue entry; a   *)
(*        request whose dry run fails is rejected and not queued;          *)
(*   End  the user-visible `token_swapped` events of the end-blocker parse *)
(*        into hop chains, each matching a DISTINCT request accepted in    *)
(*        this block within its limits (exact input / no more than the     *)
(*        maximum; at least the minimum / exactly the stated output;       *)
(*        intermediate hops stay with the sender, the last hop goes to the *)
(*        recipient), every user balance change of the step is exactly     *)
(*        what those events say (plus a non-negative rebalancing bonus to  *)
(*        a recipient) - so a request that could not be honoured changed   *)
(*        nothing - and the queue is empty afterwards;                     *)
(*   any  no queue entry survives into the next block.                     *)
(* The pick order of the batch is irrelevant to the contract: the parse    *)
(* searches for ANY assignment of chains to requests.                      *)
(***************************************************************************)
EXTENDS Events

SwapMsgs == {"amm.MsgSwapExactAmountIn", "amm.MsgSwapExactAmountOut"}
\* other messages that enqueue swap requests on somebody's behalf (their requests are not described by the event record)
IndirectSwapMsgs == {"amm.MsgSwapByDenom", "tradeshield.MsgExecuteOrders", "tradeshield.MsgCreateSpotOrder"}

ReqOf(e) ==
  IF e.name = "amm.MsgSwapExactAmountIn"
    THEN [kind |-> "in", sender |-> e.sender, rcpt |-> e.args.rcpt, route |-> e.args.route, denoms |-> e.args.denoms, amt |-> e.args.ain, limit |-> e.args.minOut]
    ELSE [kind |-> "out", sender |-> e.sender, rcpt |-> e.args.rcpt, route |-> e.args.route, denoms |-> e.args.denoms, amt |-> e.args.aout, limit |-> e.args.maxIn]

\* ghost: requests accepted in the block being processed; `opaque` once a message enqueued requests we cannot describe
BatchGhostInit == [reqs |-> << >>, opaque |-> FALSE]
BatchGhostNext(k, e, gb) ==
  IF k = "Begin" THEN BatchGhostInit
  ELSE IF k = "Tx" /\ e.ok /\ e.name \in SwapMsgs THEN [gb EXCEPT !.reqs = Append(@, ReqOf(e))]
  ELSE IF k = "Tx" /\ e.ok /\ e.name \in IndirectSwapMsgs THEN [gb EXCEPT !.opaque = TRUE]
  ELSE gb

EndSwaps(e) == SelectSeq(e.abci, LAMBDA x : x.type = "token_swapped" /\ "mode" \in DOMAIN x /\ x.mode = "EndBlock")

\* chain of hop events E[i .. i + hops - 1] settles request r within its limits
Hops(r) == Len(r.route)
MatchAt(r, E, i) ==
  LET n == Hops(r) IN
  /\ i + n - 1 <= Len(E)
  /\ \A j \in 0..(n - 1) :
       LET x == E[i + j] IN
       /\ x.sender = r.sender
       /\ x.recipient = (IF j = n - 1 THEN r.rcpt ELSE r.sender)
       /\ x.pool_id = r.route[j + 1]
       /\ x.in_denom = r.denoms[j + 1] /\ x.out_denom = r.denoms[j + 2]
       \* the output of a hop feeds the next one: exactly (exact-in); an exact-out route buys each hop's pre-computed
       \* input, of which the next hop may need a unit less (the remainder stays with the sender) - never more
       /\ (j > 0 => IF r.kind = "in" THEN x.in_amt = E[i + j - 1].out_amt ELSE x.in_amt \preceq E[i + j - 1].out_amt)
  /\ IF r.kind = "in" THEN E[i].in_amt = r.amt /\ E[i + n - 1].out_amt \succeq r.limit
                      ELSE E[i + n - 1].out_amt = r.amt /\ E[i].in_amt \preceq r.limit

RECURSIVE ParseOK(_, _, _, _)
ParseOK(R, E, i, rem) ==
  IF i > Len(E) THEN TRUE
  ELSE \E j \in rem : MatchAt(R[j], E, i) /\ ParseOK(R, E, i + Hops(R[j]), rem \ {j})

C04StepChecks(k, e, s, t, gb) ==
  (IF k = "Tx" /\ e.name \in SwapMsgs THEN
     { Chk("C04", "C04.step.request_moves_no_funds_until_end_of_block", TRUE, t.bank = s.bank, ""),
       Chk("C04", "C04.step.accepted_request_is_queued_once_rejected_not_at_all", TRUE,
           t.amm.queue = s.amm.queue + (IF e.ok THEN 1 ELSE 0), "") }
   ELSE {})
  \cup
  (IF k = "End" THEN
     LET E == EndSwaps(e)
         UE == SelectSeq(E, LAMBDA x : x.sender \in UserAccts(s))
         R == gb.reqs
         ds == AllDenoms(s) \cup AllDenoms(t)
         Out(a, d) == SumOver({i \in DOMAIN E : E[i].recipient = a /\ E[i].out_denom = d}, LAMBDA i : E[i].out_amt)
         In(a, d)  == SumOver({i \in DOMAIN E : E[i].sender = a /\ E[i].in_denom = d}, LAMBDA i : E[i].in_amt)
         \* (the staking end blocker pays matured unbondings back to their delegator in the same step: not on a request's behalf)
         \* and distribution pays a delegator's pending rewards whenever estaking's end blocker changes its delegation
         Unbonded(a, d) == SumOver({i \in DOMAIN e.abci : e.abci[i].type \in {"complete_unbonding", "withdraw_rewards"} /\ e.abci[i].delegator = a /\ e.abci[i].denom = d},
                                   LAMBDA i : e.abci[i].amt)
         Bonus(a, d) == (DBal(s, t, a, d) -- Unbonded(a, d)) -- (Out(a, d) -- In(a, d))
         OracleRcpt(a, d) == \E i \in DOMAIN E : E[i].recipient = a /\ E[i].out_denom = d
                                                  /\ E[i].pool_id \in Pools(s) /\ s.amm.pools[E[i].pool_id].useOracle
         badBal == {<<a, d>> \in UserAccts(s) \X ds : Bonus(a, d) \prec Zero \/ (Bonus(a, d) \succ Zero /\ ~OracleRcpt(a, d))}
     IN
     { Chk("C04", "C04.step.batch_settles_each_request_at_most_once_within_its_limits", R # << >> /\ ~gb.opaque,
           gb.opaque \/ ParseOK(R, UE, 1, DOMAIN R),
           IF gb.opaque \/ ParseOK(R, UE, 1, DOMAIN R) THEN "" ELSE ToString(<<"requests", R, "settled", [i \in DOMAIN UE |-> <<UE[i].sender, UE[i].recipient, UE[i].pool_id, UE[i].in_amt, UE[i].in_denom, UE[i].out_amt, UE[i].out_denom>>]>>)),
       \* beyond the listed properties: the same equation at EVERY end of block - the end blockers move users' funds only by settling
       \* swap requests, paying matured unbondings and paying the rewards of delegations they change
       Chk("EXT", "EXT.endblock.user_funds_move_only_by_settlement_unbonding_rewards", TRUE, badBal = {},
           IF badBal = {} THEN "" ELSE ToString({<<x[1], x[2], DBal(s, t, x[1], x[2])>> : x \in badBal})),
       Chk("C04", "C04.step.batch_moves_user_funds_only_as_settled", R # << >> \/ E # << >>, badBal = {},
           IF badBal = {} THEN "" ELSE ToString({<<x[1], x[2], DBal(s, t, x[1], x[2]), Out(x[1], x[2]), In(x[1], x[2])>> : x \in badBal})),
       Chk("C04", "C04.step.queue_is_empty_after_the_batch", R # << >>, t.amm.queue = 0, "") }
   ELSE {})
  \cup
  (IF k = "Begin" THEN
     { Chk("C04", "C04.step.no_request_lingers_into_the_next_block", TRUE, t.amm.queue = 0, "") }
   ELSE {})
  \cup
  \* C03 at application level, oracle pools: every hop settled in this step (end-of-block batch, or a swap inside a
  \* transaction: perpetual / leveraged-LP opens and closes, fee conversions) pays out no more value than it takes in at the
  \* oracle prices in force when the step began (one base unit of the output allowed), and whatever a recipient receives on
  \* top of the settled output (the rebalancing bonus) fits in the pool's rebalance treasury
  (IF k \in {"End", "Tx", "Begin"} /\ "abci" \in DOMAIN e THEN
     LET H == SelectSeq(e.abci, LAMBDA x : x.type = "token_swapped" /\ x.pool_id \in Pools(s) /\ s.amm.pools[x.pool_id].useOracle
                                           /\ x.in_denom \in DOMAIN s.oracle.lookupDenom /\ x.out_denom \in DOMAIN s.oracle.lookupDenom
                                           /\ s.oracle.lookupDenom[x.in_denom] \succ Zero /\ s.oracle.lookupDenom[x.out_denom] \succ Zero)
         bad == {i \in DOMAIN H : (H[i].out_amt -- One) ** s.oracle.lookupDenom[H[i].out_denom] \succ H[i].in_amt ** s.oracle.lookupDenom[H[i].in_denom]}
     IN { Chk("C03", "C03.step.oracle_hop_pays_no_more_value_than_it_takes", H # << >>, bad = {},
              IF bad = {} THEN "" ELSE ToString({<<H[i].pool_id, H[i].in_amt, H[i].in_denom, H[i].out_amt, H[i].out_denom>> : i \in bad})) }
   ELSE {})
=============================================================================
