------------------------------ MODULE Authority -----------------------------
(***************************************************************************)
(* C17 — governance-only and owner-scoped messages.                        *)
(*                                                                         *)
(* Part 1 (router enumeration; records produced by harness/authority.go):  *)
(*   every message type the running application registers is classified    *)
(*   "authority" (its signer field is the governance authority) or         *)
(*   "other"; an authority message delivered by ANY sender class other     *)
(*   than the governance account - a user or a bot through a signed        *)
(*   transaction, any address (user, module account, empty) through the    *)
(*   message router - must be rejected and must leave the digest of all    *)
(*   module stores unchanged; and every registered authority type must     *)
(*   have been exercised from every sender class (nothing forgotten).      *)
(*   (Whether governance itself is accepted is recorded as evidence of     *)
(*   non-vacuity, it is not part of the property: e.g. an airdrop whose    *)
(*   recorded authority is an ordinary account refuses governance too.)    *)
(* Part 2 (owner scope; ordinary traces): a successful message alters only *)
(*   positions / orders / ledger entries of its sender.                    *)
(***************************************************************************)
EXTENDS Events

SenderClasses == {"gov", "user", "bot", "module", "empty"}
\* the (sender class, via) combinations every authority type must be exercised with
Required == {<<"gov", "router">>, <<"user", "router">>, <<"module", "router">>, <<"empty", "router">>, <<"user", "tx">>, <<"bot", "tx">>}

AuthChecks(e) ==
  LET a == e.args IN
  IF a.class # "authority" THEN {} ELSE
  { Chk("C17", "C17.authority_message_from_non_authority_is_rejected", a.senderClass # "gov", a.senderClass # "gov" => ~e.ok, e.name),
    Chk("C17", "C17.rejected_authority_message_leaves_state_unchanged", a.senderClass # "gov" /\ a.via = "router",
        (a.senderClass # "gov" /\ a.via = "router") => ~a.changed, e.name),
    Chk("C17", "C17.message_could_be_instantiated", TRUE, a.built, e.name) }

\* completeness: types = the registered authority types, seen = {<<type, senderClass, via>>} exercised
Missing(types, seen) == {x \in types \X Required : <<x[1], x[2][1], x[2][2]>> \notin seen}
CompletenessChecks(types, seen) ==
  { Chk("C17", "C17.every_registered_authority_message_was_exercised_from_every_sender_class", types # {}, Missing(types, seen) = {},
        IF Missing(types, seen) = {} THEN "" ELSE ToString(Missing(types, seen))) }

-----------------------------------------------------------------------------
(* Part 2: owner scope on ordinary traces *)
PositionMsgs == {"leveragelp.MsgClose", "leveragelp.MsgUpdateStopLoss", "leveragelp.MsgClaimRewards", "leveragelp.MsgOpen",
                 "perpetual.MsgClose", "perpetual.MsgUpdateStopLoss", "perpetual.MsgUpdateTakeProfitPrice", "perpetual.MsgOpen"}
PersonalMsgs == {"masterchef.MsgClaimRewards", "commitment.MsgCommitClaimedRewards", "commitment.MsgUncommitTokens", "commitment.MsgVest",
                 "commitment.MsgCancelVest", "commitment.MsgClaimVesting", "commitment.MsgVestNow", "commitment.MsgVestLiquid",
                 "stablestake.MsgBond", "stablestake.MsgUnbond"}
LevCore(p)  == [lp |-> p.lp, collateral |-> p.collateral, liab |-> p.liab, stopLoss |-> p.stopLoss, owner |-> p.owner]
MtpCore(m)  == [custody |-> m.custody, liab |-> m.liab, collateral |-> m.collateral, stopLoss |-> m.stopLoss, takeProfit |-> m.takeProfit, owner |-> m.owner]

C17StepChecks(k, e, s, t) ==
  (IF k = "Tx" /\ e.ok /\ e.name \in PositionMsgs THEN
     LET badLev == {x \in LevPositions(s) : s.lev.positions[x].owner # e.sender /\ (x \notin LevPositions(t) \/ LevCore(t.lev.positions[x]) # LevCore(s.lev.positions[x]))}
         badMtp == {x \in Mtps(s) : s.perp.mtps[x].owner # e.sender /\ (x \notin Mtps(t) \/ MtpCore(t.perp.mtps[x]) # MtpCore(s.perp.mtps[x]))}
     IN { Chk("C17", "C17.step.position_message_alters_only_the_senders_positions", LevPositions(s) # {} \/ Mtps(s) # {},
              badLev = {} /\ badMtp = {}, Bad(badLev \cup badMtp)) }
   ELSE {})
  \cup
  (IF k = "Tx" /\ e.ok /\ e.name \in PersonalMsgs THEN
     LET others == UserAccts(s) \ {e.sender}
         badBank == {a \in others : Get(s.bank, a, << >>) # Get(t.bank, a, << >>)}
         badCom  == {a \in others : (a \in CommitAccts(s)) # (a \in CommitAccts(t)) \/ (a \in CommitAccts(s) /\ s.commit.acct[a] # t.commit.acct[a])}
     IN { Chk("C17", "C17.step.personal_message_touches_only_the_senders_funds_and_ledger", others # {}, badBank = {} /\ badCom = {}, Bad(badBank \cup badCom)) }
   ELSE {})
=============================================================================
