------------------------------- MODULE Orders -------------------------------
(***************************************************************************)
(* C20 — pending spot / perpetual limit orders of x/tradeshield.           *)
(*                                                                         *)
(* A pending order o records [owner, denom, amount, escrow account, type,  *)
(* trigger].  The contract:                                                *)
(*   Inv   every escrow account holds at least the amounts of the pending  *)
(*         orders it backs (funds of a pending order are never lost or     *)
(*         lent to anybody else);                                          *)
(*   Step  wealth(a, d) = wallet(a, d) + amounts of a's pending orders in  *)
(*         d is conserved by every tradeshield step (create, update,       *)
(*         cancel, failed or skipped execution); a successful perpetual    *)
(*         execution moves exactly the order's collateral into a position; *)
(*   Step  cancel returns the whole escrow and removes the order;          *)
(*   Step  update / cancel succeed only for the owner;                     *)
(*   Step  an execution request (from anyone) changes or removes an order  *)
(*         only if the market price, probed through the real price         *)
(*         functions on the state before the step, satisfies its trigger;  *)
(*   Frame orders and escrows change only through tradeshield messages.    *)
(***************************************************************************)
EXTENDS Events

Spot(s)  == s.ts.spot
Perp(s)  == s.ts.perp
\* all pending orders as records with a common shape, keyed by <<"spot"|"perp", id>>
OrderKeys(s) == {<<"spot", i>> : i \in DOMAIN Spot(s)} \cup {<<"perp", i>> : i \in DOMAIN Perp(s)}
Ord(s, x)    == IF x[1] = "spot" THEN Spot(s)[x[2]] ELSE Perp(s)[x[2]]
EscrowAccts(s) == {Ord(s, x).escrow : x \in OrderKeys(s)}
OrdersOf(s, a) == {x \in OrderKeys(s) : Ord(s, x).owner = a}

Backed(s, acct, d) == SumOver({x \in OrderKeys(s) : Ord(s, x).escrow = acct /\ Ord(s, x).denom = d}, LAMBDA x : Ord(s, x).amount)
Wealth(s, a, d)    == Bal(s, a, d) ++ SumOver({x \in OrdersOf(s, a) : Ord(s, x).denom = d}, LAMBDA x : Ord(s, x).amount)

\* trigger condition on the probed market price (Dec mantissas); "-1" = the price functions found no price
Triggered(o, kind) ==
  IF o.marketPrice \prec Zero \/ o.marketPrice = Zero THEN FALSE
  ELSE IF kind = "spot" THEN
         (IF o.type = "LIMITSELL" THEN o.marketPrice \succeq o.rate ELSE o.marketPrice \preceq o.rate)   \* STOPLOSS, LIMITBUY: at or below
       ELSE (IF o.side = "LONG" THEN o.marketPrice \preceq o.trigRate ELSE o.marketPrice \succeq o.trigRate)

TsMsgs == {"tradeshield.MsgCreateSpotOrder", "tradeshield.MsgUpdateSpotOrder", "tradeshield.MsgCancelSpotOrder", "tradeshield.MsgCancelSpotOrders",
           "tradeshield.MsgCreatePerpetualOpenOrder", "tradeshield.MsgUpdatePerpetualOrder", "tradeshield.MsgCancelPerpetualOrder",
           "tradeshield.MsgCancelPerpetualOrders", "tradeshield.MsgExecuteOrders"}
OwnerOnlyMsgs == {"tradeshield.MsgUpdateSpotOrder", "tradeshield.MsgCancelSpotOrder", "tradeshield.MsgCancelSpotOrders",
                  "tradeshield.MsgUpdatePerpetualOrder", "tradeshield.MsgCancelPerpetualOrder", "tradeshield.MsgCancelPerpetualOrders"}

InvC20(s) ==
  LET ds == AllDenoms(s)
      bad == {<<a, d>> \in EscrowAccts(s) \X ds : Bal(s, a, d) \prec Backed(s, a, d)}
  IN { Chk("C20", "C20.inv.escrow_holds_the_funds_of_every_pending_order", OrderKeys(s) # {}, bad = {},
           IF bad = {} THEN "" ELSE ToString({<<x[1], x[2], Bal(s, x[1], x[2]), Backed(s, x[1], x[2])>> : x \in bad})) }

C20StepChecks(k, e, s, t) ==
  LET K0 == OrderKeys(s)  K1 == OrderKeys(t)
      gone    == K0 \ K1
      new     == K1 \ K0
      changed == {x \in K0 \cap K1 : Ord(s, x) # Ord(t, x)}
      \* the order record apart from the probed market price (which moves with the market)
      Core(o) == [f \in DOMAIN o \ {"marketPrice"} |-> o[f]]
      altered == {x \in K0 \cap K1 : Core(Ord(s, x)) # Core(Ord(t, x))}
      isTs == k = "Tx" /\ e.name \in TsMsgs
      us == UserAccts(s)
      ds == AllDenoms(s) \cup AllDenoms(t)
      \* collateral that successful perpetual executions moved into positions (per owner and denom)
      Opened(a, d) == IF k = "Tx" /\ e.ok /\ e.name = "tradeshield.MsgExecuteOrders"
                        THEN SumOver({x \in gone : x[1] = "perp" /\ Ord(s, x).owner = a /\ Ord(s, x).denom = d}, LAMBDA x : Ord(s, x).amount)
                        ELSE Zero
      badWealth == {<<a, d>> \in us \X ds : Wealth(t, a, d) # Wealth(s, a, d) -- Opened(a, d)}
      named == IF k = "Tx" /\ e.name = "tradeshield.MsgExecuteOrders"
                 THEN {<<"spot", e.args.spot[i]>> : i \in DOMAIN e.args.spot} \cup {<<"perp", e.args.perp[i]>> : i \in DOMAIN e.args.perp} ELSE {}
      escDown == {x \in K0 : Bal(t, Ord(s, x).escrow, Ord(s, x).denom) \prec Bal(s, Ord(s, x).escrow, Ord(s, x).denom)}
  IN
  \* frame: only tradeshield messages touch orders and escrows
  { Chk("C20", "C20.step.orders_and_escrows_change_only_by_tradeshield_messages", K0 # {} \/ K1 # {},
        isTs \/ (gone = {} /\ new = {} /\ altered = {} /\ escDown = {}), Bad(gone \cup new \cup altered \cup escDown)) }
  \cup
  (IF isTs /\ e.ok THEN
     { Chk("C20", "C20.step.owner_wallet_plus_escrow_conserved", TRUE, badWealth = {},
           IF badWealth = {} THEN "" ELSE ToString({<<x[1], x[2], Wealth(s, x[1], x[2]), Wealth(t, x[1], x[2]), Opened(x[1], x[2])>> : x \in badWealth})) }
   ELSE {})
  \cup
  (IF k = "Tx" /\ e.ok /\ e.name \in OwnerOnlyMsgs THEN
     { Chk("C20", "C20.step.only_the_owner_updates_or_cancels", TRUE,
           \A x \in gone \cup altered : Ord(s, x).owner = e.sender, Bad(gone \cup altered)),
       Chk("C17", "C17.step.order_message_alters_only_the_senders_orders", TRUE,
           \A x \in gone \cup altered : Ord(s, x).owner = e.sender, Bad(gone \cup altered)) }
   ELSE {})
  \cup
  (IF k = "Tx" /\ e.ok /\ e.name \in {"tradeshield.MsgCancelSpotOrder", "tradeshield.MsgCancelSpotOrders", "tradeshield.MsgCancelPerpetualOrder", "tradeshield.MsgCancelPerpetualOrders"} THEN
     { Chk("C20", "C20.step.cancel_returns_the_whole_escrow_and_removes_the_order", TRUE,
           /\ gone # {} /\ new = {} /\ altered = {}
           /\ \A x \in gone : LET o == Ord(s, x) IN
                \* nothing of the order's funds stays behind unless another pending order shares the account
                Bal(t, o.escrow, o.denom) = Backed(t, o.escrow, o.denom) \/ Bal(t, o.escrow, o.denom) = Bal(s, o.escrow, o.denom) -- o.amount, Bad(gone)) }
   ELSE {})
  \cup
  (IF k = "Tx" /\ e.name = "tradeshield.MsgExecuteOrders" /\ e.ok THEN
     { Chk("C20", "C20.step.execution_touches_an_order_only_if_its_trigger_is_met", named # {},
           /\ (gone \cup altered) \subseteq named
           /\ \A x \in gone \cup altered : Triggered(Ord(s, x), x[1])
           /\ new = {},
           ToString({<<x, Ord(s, x).marketPrice>> : x \in gone \cup altered})),
       Chk("C20", "C20.step.untouched_orders_keep_their_escrow", named # {},
           \A x \in K0 \cap K1 : ~(Bal(t, Ord(s, x).escrow, Ord(s, x).denom) \prec Bal(s, Ord(s, x).escrow, Ord(s, x).denom)) \/ x \in gone, Bad(escDown \ gone)) }
   ELSE {})
=============================================================================
