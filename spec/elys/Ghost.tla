------------------------------- MODULE Ghost --------------------------------
(***************************************************************************)
(* Ghost (history) state maintained by the specification itself, never     *)
(* logged by the implementation:                                           *)
(*   donated   tokens a third party has sent straight to a protocol        *)
(*             address (pool, vault, ...) outside the protocol; C01 and    *)
(*             C06 allow the real balance to exceed the book value by      *)
(*             exactly these amounts;                                      *)
(*   c12drift  accumulated effect of the recorded C12 known finding        *)
(*             (uncommit adds to the chain-wide total instead of           *)
(*             subtracting): total = sum of accounts + drift, so that any  *)
(*             OTHER drift of the same total is still reported.            *)
(***************************************************************************)
EXTENDS State

GFun(f, k)        == IF k \in DOMAIN f THEN f[k] ELSE Zero
GAdd(f, k, x)     == [y \in DOMAIN f \cup {k} |-> IF y = k THEN GFun(f, k) ++ x ELSE f[y]]

GhostInit(s) == [donated |-> << >>, c12drift |-> << >>, vest |-> << >>]

Don(g, a, d)      == GFun(g.donated, <<a, d>>)
Drift12(g, d)     == GFun(g.c12drift, d)

\* Protocol-owned addresses a third party may donate to
IsProtocolAddr(s, a) ==
  \/ \E p \in Pools(s) : a = PoolAddr(p)
  \/ a \in {"mod:stablestake", "mod:commitment", "mod:masterchef", "mod:amm", "mod:perpetual", "mod:leveragelp"}
=============================================================================
