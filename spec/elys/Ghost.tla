------------------------------- MODULE Ghost --------------------------------
(***************************************************************************)
(* Ghost (history) state maintained by the specification itself, never     *)
(* logged by the implementation:                                           *)
(*   donated   tokens a third party has sent straight to a protocol        *)
(*             address (pool, vault, ...) outside the protocol; C01 and    *)
(*             C06 allow the real balance to exceed the book value by      *)
(*             exactly these amounts;                                      *)
(*   c12drift  accumulated effect of the recorded C12 known finding        *)
(*             (uncommit adds to the chain-wide total instead of           *)
(*             subtracting): total = sum of accounts + drift, so that any  *)
(*             OTHER drift of the same total is still reported.            *)
(***************************************************************************)
EXTENDS State

GFun(f, k)        == IF k \in DOMAIN f THEN f[k] ELSE Zero
GAdd(f, k, x)     == [y \in DOMAIN f \cup {k} |-> IF y = k THEN GFun(f, k) ++ x ELSE f[y]]

\* share denoms whose mints are time-locked (x/amm MintPoolShareToAccount: oracle pools lock every mint for one hour)
LockedShareDenoms(s) == {ShareDenom(s, p) : p \in {q \in Pools(s) : s.amm.pools[q].useOracle}}
LockSeconds == 3600
LiveLocks(sq, now)  == SelectSeq(sq, LAMBDA l : l.until > now)
LockedSum(sq, now)  == SumSeqOf(LiveLocks(sq, now), LAMBDA l : l.amt)
LockPairs(s) == UNION {{<<a, d>> : d \in DOMAIN s.commit.acct[a].committed \cap LockedShareDenoms(s)} : a \in CommitAccts(s)}

\* the specification's own lock ledger starts from the recorded lock-ups of the first observed state
GhostInit(s) == [donated |-> << >>, c12drift |-> << >>, vest |-> << >>, batch |-> [reqs |-> << >>, opaque |-> FALSE],
                 locks |-> [x \in LockPairs(s) |-> LiveLocks(Lockups(s, x[1], x[2]), s.chain.t)]]
GLocks(g, a, d) == IF <<a, d>> \in DOMAIN g.locks THEN g.locks[<<a, d>>] ELSE << >>

Don(g, a, d)      == GFun(g.donated, <<a, d>>)
Drift12(g, d)     == GFun(g.c12drift, d)

\* Protocol-owned addresses a third party may donate to
IsProtocolAddr(s, a) ==
  \/ \E p \in Pools(s) : a = PoolAddr(p)
  \/ a \in {"mod:stablestake", "mod:commitment", "mod:masterchef", "mod:amm", "mod:perpetual", "mod:leveragelp"}
=============================================================================
