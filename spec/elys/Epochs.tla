------------------------------- MODULE Epochs -------------------------------
(***************************************************************************)
(* Beyond the listed properties: the epoch clock (x/epochs) and the burner *)
(* (x/burner) as deterministic specifications, checked on every trace      *)
(* under the pseudo-property EXT.                                          *)
(*   Epochs  each epoch [num, cur (start of the current epoch), duration,  *)
(*           started, start] is touched only by begin-block: counting      *)
(*           starts once the block time has reached `start`; afterwards a  *)
(*           block whose time is PAST cur + duration ends exactly ONE      *)
(*           epoch (num + 1, cur + duration) - never more per block, never *)
(*           less; nothing else changes an epoch.                          *)
(*   Burner  in the begin-block in which the burner's epoch ends, every    *)
(*           denom with bank metadata held by the zero address is either   *)
(*           burned completely (balance 0, supply reduced by exactly that  *)
(*           amount) or left untouched (unburnable: locked coins); in      *)
(*           every other step the protocol never reduces what sits there.  *)
(***************************************************************************)
EXTENDS Events

EpochIds(s) == DOMAIN s.epochs
EpochNext(ep, now) ==
  IF ~ep.started /\ ep.start <= now THEN [ep EXCEPT !.started = TRUE, !.num = 1, !.cur = ep.start]
  ELSE IF ep.started /\ now > ep.cur + ep.duration THEN [ep EXCEPT !.num = @ + 1, !.cur = @ + ep.duration]
  ELSE ep
Ticked(s, t, id) == id \in EpochIds(s) /\ id \in EpochIds(t) /\ t.epochs[id].num > s.epochs[id].num

ExtStepChecks(k, e, s, t) ==
  LET ids == EpochIds(s) \cap EpochIds(t)
      now == t.chain.t
      badClock == {id \in ids : t.epochs[id] # (IF k = "Begin" THEN EpochNext(s.epochs[id], now) ELSE s.epochs[id])}
      burnTick == k = "Begin" /\ Ticked(s, t, s.burner.epoch)
      ds == {s.burner.denoms[i] : i \in DOMAIN s.burner.denoms}
      badBurn == {d \in {x \in ds : Bal(s, "zero", x) \succ Zero} : IF burnTick
                               THEN ~(\/ (Bal(t, "zero", d) = Zero /\ DSupply(s, t, d) = Zero -- Bal(s, "zero", d))
                                      \/ Bal(t, "zero", d) = Bal(s, "zero", d))
                               ELSE Bal(t, "zero", d) \prec Bal(s, "zero", d)}
  IN { Chk("EXT", "EXT.epochs.clock_ticks_exactly_one_epoch_per_due_block", ids # {}, badClock = {}, Bad(badClock)),
       Chk("EXT", "EXT.burner.burns_exactly_the_zero_address_holdings_at_its_epoch_end", ds # {}, badBurn = {}, Bad(badBurn)) }
=============================================================================
