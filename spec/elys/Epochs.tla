------------------------------- MODULE Epochs -------------------------------
(***************************************************************************)
(* Beyond the listed properties: the epoch clock (x/epochs) and the burner *)
(* (x/burner) as deterministic specifications, checked on every trace      *)
(* under the pseudo-property EXT.                                          *)
(*   Epochs  each epoch [num, cur (start of the current epoch), duration,  *)
(*           started, start] is touched only by begin-block: counting      *)
(*           starts once the block time has reached `start`; afterwards a  *)
(*           block whose time is PAST cur + duration ends exactly ONE      *)
(*           epoch (num + 1, cur + duration) - never more per block, never *)
(*           less; nothing else changes an epoch.                          *)
(*   Burner  in the begin-block in which the burner's epoch ends, every    *)
(*           denom with bank metadata held by the zero address is either   *)
(*           burned completely (balance 0, supply reduced by exactly that  *)
(*           amount) or left untouched (unburnable: locked coins); in      *)
(*           every other step the protocol never reduces what sits there.  *)
(***************************************************************************)
EXTENDS Events

EpochIds(s) == DOMAIN s.epochs
EpochNext(ep, now) ==
  IF ~ep.started /\ ep.start <= now THEN [ep EXCEPT !.started = TRUE, !.num = 1, !.cur = ep.start]
  ELSE IF ep.started /\ now > ep.cur + ep.duration THEN [ep EXCEPT !.num = @ + 1, !.cur = @ + ep.duration]
  ELSE ep
Ticked(s, t, id) == id \in EpochIds(s) /\ id \in EpochIds(t) /\ t.epochs[id].num > s.epochs[id].num

\* stablestake's borrow interest rate as a deterministic specification (interest_rate.go, evaluated by the begin blocker at
\* every epoch start, BEFORE any module that touches the vault runs): the rate moves towards healthGainFactor * utilisation
\* by at most the configured increase / decrease per epoch and is clamped to [min, max].  Dec arithmetic as the SDK does it:
\* Quo truncates the 36-digit quotient and then rounds the last 18 digits half-to-even, symmetrically for negative values.
SgnTrunc(a, b) == IF a \succeq Zero THEN a // b ELSE Zero -- ((Zero -- a) // b)
RHE(a, b) == LET q == a // b  r == a %% b IN IF (r ** N(2)) \prec b THEN q ELSE IF (r ** N(2)) \succ b THEN q ++ One ELSE IF q %% N(2) = Zero THEN q ELSE q ++ One
SgnRound(a, b) == IF a \succeq Zero THEN RHE(a, b) ELSE Zero -- RHE(Zero -- a, b)
RateNext(s) ==
  LET tv == s.stable.totalValue
      prev == s.stable.interestRate
      borrowed == tv -- VaultCash(s)
      target == SgnRound(SgnTrunc((s.stable.hgf ** borrowed) ** E18, tv), E18)
      change == target -- prev
      moved == IF change \succeq (Zero -- s.stable.rateDec) /\ change \preceq s.stable.rateInc THEN target
               ELSE IF change \succ s.stable.rateInc THEN prev ++ s.stable.rateInc
               ELSE prev -- s.stable.rateDec
  IN IF tv = Zero THEN prev
     ELSE IF moved \succ s.stable.rateMin /\ moved \prec s.stable.rateMax THEN moved
     ELSE IF moved \preceq s.stable.rateMin THEN s.stable.rateMin
     ELSE s.stable.rateMax
RateDue(s, t) == LET len == IF s.stable.epochLength \preceq Zero THEN One ELSE s.stable.epochLength IN N(t.chain.h) %% len = Zero

\* perpetual's funding rate as a deterministic specification (begin_blocker.go ComputeFundingRate, evaluated every block before
\* any module that touches perpetual pools): fixed rate * |long - short open interest| / (long + short), positive when longs
\* are the popular side (they pay), negative when shorts are, zero while one side is empty.  Dec Quo / Mul as the SDK does them.
LongOI(pl)  == SumOver({d \in DOMAIN pl.long : pl.long[d].custody # Zero}, LAMBDA d : pl.long[d].custody -- pl.long[d].collateral)
ShortOI(pl) == SumOver(DOMAIN pl.short, LAMBDA d : pl.short[d].liab)
DecQuoInts(a, b) == RHE((a ** E18 ** E18) // b, E18)            \* a, b non-negative integers: (a as Dec).Quo(b as Dec), mantissa
DecMulM(x, y) == RHE(x ** y, E18)                                \* Dec.Mul on non-negative mantissas
FundingNext(pl, fixed) ==
  LET L == LongOI(pl)  S == ShortOI(pl) IN
  IF L = Zero \/ S = Zero THEN Zero
  ELSE IF L \succ S THEN DecMulM(DecQuoInts(L -- S, L ++ S), fixed)
  ELSE Zero -- DecMulM(DecQuoInts(S -- L, L ++ S), fixed)

\* perpetual's borrow interest rate controller (keeper.go BorrowInterestRateComputation, every block in the begin blocker):
\* target = healthGainFactor * PRODUCT over the long and the short pool assets of (balance + liabilities) / balance, where
\* balance = amm reserve - custody; the stored rate moves towards it by at most the configured increase / decrease and is
\* clamped to [min, max] (the same controller as stablestake's).  Two-asset pools: the order of the product is immaterial.
Controller(prev, target, inc, dec, lo, hi) ==
  LET change == target -- prev
      moved == IF change \succeq (Zero -- dec) /\ change \preceq inc THEN target
               ELSE IF change \succ inc THEN prev ++ inc
               ELSE prev -- dec
  IN IF moved \succ lo /\ moved \prec hi THEN moved ELSE IF moved \preceq lo THEN lo ELSE hi
SideBal(side, assets, d) == assets[d].amt -- side[d].custody
SideDecided(side, assets) == \A d \in DOMAIN side : d \in DOMAIN assets /\ SideBal(side, assets, d) \succeq Zero
SideTarget(side, assets) ==
  IF \E d \in DOMAIN side : SideBal(side, assets, d) = Zero \/ SideBal(side, assets, d) ++ side[d].liab = Zero THEN Zero
  ELSE FoldSet(LAMBDA d, acc : DecMulM(acc, DecQuoInts(SideBal(side, assets, d) ++ side[d].liab, SideBal(side, assets, d))), E18, DOMAIN side)
BorrowNext(s, p) ==
  LET pl == s.perp.pools[p]
      assets == s.amm.pools[p].assets
      target == DecMulM(DecMulM(s.perp.borrowHgf, SideTarget(pl.long, assets)), SideTarget(pl.short, assets))
  IN Controller(pl.borrowRate, target, s.perp.borrowInc, s.perp.borrowDec, s.perp.borrowMin, s.perp.borrowMax)

ExtStepChecks(k, e, s, t) ==
  LET ids == EpochIds(s) \cap EpochIds(t)
      now == t.chain.t
      badClock == {id \in ids : t.epochs[id] # (IF k = "Begin" THEN EpochNext(s.epochs[id], now) ELSE s.epochs[id])}
      burnTick == k = "Begin" /\ Ticked(s, t, s.burner.epoch)
      ds == {s.burner.denoms[i] : i \in DOMAIN s.burner.denoms}
      badBurn == {d \in {x \in ds : Bal(s, "zero", x) \succ Zero} : IF burnTick
                               THEN ~(\/ (Bal(t, "zero", d) = Zero /\ DSupply(s, t, d) -- ProviderRelease(k, s, t, d) = Zero -- Bal(s, "zero", d))
                                      \/ Bal(t, "zero", d) = Bal(s, "zero", d))
                               ELSE Bal(t, "zero", d) \prec Bal(s, "zero", d)}
      \* masterchef's accumulator scheme as a deterministic specification (hooks_masterchef.go; MC_rewards is its small model):
      \* a reward record written by a step that does not distribute is checkpointed against the CURRENT accumulator,
      \*     debt' = acc * balance',   pending' = pending + (acc * balance - debt) / 1e18   (or 0 when the step may pay it out)
      rkeys == {x \in RewardKeys(s) \cup RewardKeys(t) : UserKey(x[1], x[2], x[3]) \in DOMAIN t.mc.user}
      touched == {x \in rkeys : LET uk == UserKey(x[1], x[2], x[3]) IN uk \notin DOMAIN s.mc.user \/ s.mc.user[uk] # t.mc.user[uk]}
      pays == k = "Begin" \/ e.name \in {"masterchef.MsgClaimRewards", "leveragelp.MsgClaimRewards", "leveragelp.MsgClose", "leveragelp.MsgClosePositions", "leveragelp.MsgOpen"}
      Exp(x) == PendingM(s, x[1], x[2], x[3]) ++ (((AccM(s, x[1], x[2]) ** Committed(s, x[3], RewardShareDenom(s, x[1]))) -- DebtM(s, x[1], x[2], x[3])) // E18)
      badCp == {x \in touched : ~(/\ DebtM(t, x[1], x[2], x[3]) = AccM(t, x[1], x[2]) ** Committed(t, x[3], RewardShareDenom(t, x[1]))
                                   /\ (PendingM(t, x[1], x[2], x[3]) = Exp(x) \/ (pays /\ PendingM(t, x[1], x[2], x[3]) = Zero)))}
  IN { Chk("EXT", "EXT.epochs.clock_ticks_exactly_one_epoch_per_due_block", ids # {}, badClock = {}, Bad(badClock)),
       Chk("EXT", "EXT.burner.burns_exactly_the_zero_address_holdings_at_its_epoch_end", ds # {}, badBurn = {}, Bad(badBurn)) }
     \cup (IF k \in {"Tx", "Begin"} THEN
            { Chk("EXT", "EXT.rewards.touched_record_is_checkpointed_against_the_current_accumulator", touched # {}, badCp = {}, Bad(badCp)) }
          ELSE {})
     \cup (IF k = "Begin" /\ "fixedFunding" \in DOMAIN s.perp THEN
            LET ps == DOMAIN s.perp.pools \cap DOMAIN t.perp.pools
                badF == {p \in ps : t.perp.pools[p].fundingRate # FundingNext(s.perp.pools[p], s.perp.fixedFunding)} IN
            { Chk("EXT", "EXT.perpetual.funding_rate_follows_the_open_interest_rule",
                  \E p \in ps : LongOI(s.perp.pools[p]) # Zero /\ ShortOI(s.perp.pools[p]) # Zero, badF = {}, Bad(badF)) }
          ELSE {})
     \cup (IF k = "Begin" /\ "borrowHgf" \in DOMAIN s.perp THEN
            LET ps == {p \in DOMAIN s.perp.pools \cap DOMAIN t.perp.pools : /\ p \in DOMAIN s.amm.pools /\ Cardinality(DOMAIN s.perp.pools[p].long) <= 2
                                                                             /\ SideDecided(s.perp.pools[p].long, s.amm.pools[p].assets)
                                                                             /\ SideDecided(s.perp.pools[p].short, s.amm.pools[p].assets)}
                badB == {p \in ps : t.perp.pools[p].borrowRate # BorrowNext(s, p)} IN
            { Chk("EXT", "EXT.perpetual.borrow_rate_follows_the_controller", ps # {}, badB = {},
                  IF badB = {} THEN "" ELSE ToString({<<p, t.perp.pools[p].borrowRate, BorrowNext(s, p)>> : p \in badB})) }
          ELSE {})
     \cup (IF "hgf" \in DOMAIN s.stable /\ "hgf" \in DOMAIN t.stable THEN
            { Chk("EXT", "EXT.stablestake.interest_rate_follows_the_utilisation_rule", k = "Begin" /\ RateDue(s, t),
                  IF k = "Begin" THEN t.stable.interestRate = (IF RateDue(s, t) THEN RateNext(s) ELSE s.stable.interestRate)
                  ELSE IF k = "Admin" THEN TRUE
                  ELSE t.stable.interestRate = s.stable.interestRate,
                  Str(t.stable.interestRate)) }
          ELSE {})
=============================================================================
