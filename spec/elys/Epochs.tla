------------------------------- MODULE Epochs -------------------------------
(***************************************************************************)
(* Beyond the listed properties: the epoch clock (x/epochs) and the burner *)
(* (x/burner) as deterministic specifications, checked on every trace      *)
(* under the pseudo-property EXT.                                          *)
(*   Epochs  each epoch [num, cur (start of the current epoch), duration,  *)
(*           started, start] is touched only by begin-block: counting      *)
(*           starts once the block time has reached `start`; afterwards a  *)
(*           block whose time is PAST cur + duration ends exactly ONE      *)
(*           epoch (num + 1, cur + duration) - never more per block, never *)
(*           less; nothing else changes an epoch.                          *)
(*   Burner  in the begin-block in which the burner's epoch ends, every    *)
(*           denom with bank metadata held by the zero address is either   *)
(*           burned completely (balance 0, supply reduced by exactly that  *)
(*           amount) or left untouched (unburnable: locked coins); in      *)
(*           every other step the protocol never reduces what sits there.  *)
(***************************************************************************)
EXTENDS Events

EpochIds(s) == DOMAIN s.epochs
EpochNext(ep, now) ==
  IF ~ep.started /\ ep.start <= now THEN [ep EXCEPT !.started = TRUE, !.num = 1, !.cur = ep.start]
  ELSE IF ep.started /\ now > ep.cur + ep.duration THEN [ep EXCEPT !.num = @ + 1, !.cur = @ + ep.duration]
  ELSE ep
Ticked(s, t, id) == id \in EpochIds(s) /\ id \in EpochIds(t) /\ t.epochs[id].num > s.epochs[id].num

ExtStepChecks(k, e, s, t) ==
  LET ids == EpochIds(s) \cap EpochIds(t)
      now == t.chain.t
      badClock == {id \in ids : t.epochs[id] # (IF k = "Begin" THEN EpochNext(s.epochs[id], now) ELSE s.epochs[id])}
      burnTick == k = "Begin" /\ Ticked(s, t, s.burner.epoch)
      ds == {s.burner.denoms[i] : i \in DOMAIN s.burner.denoms}
      badBurn == {d \in {x \in ds : Bal(s, "zero", x) \succ Zero} : IF burnTick
                               THEN ~(\/ (Bal(t, "zero", d) = Zero /\ DSupply(s, t, d) = Zero -- Bal(s, "zero", d))
                                      \/ Bal(t, "zero", d) = Bal(s, "zero", d))
                               ELSE Bal(t, "zero", d) \prec Bal(s, "zero", d)}
      \* masterchef's accumulator scheme as a deterministic specification (hooks_masterchef.go; MC_rewards is its small model):
      \* a reward record written by a step that does not distribute is checkpointed against the CURRENT accumulator,
      \*     debt' = acc * balance',   pending' = pending + (acc * balance - debt) / 1e18   (or 0 when the step may pay it out)
      rkeys == {x \in RewardKeys(s) \cup RewardKeys(t) : UserKey(x[1], x[2], x[3]) \in DOMAIN t.mc.user}
      touched == {x \in rkeys : LET uk == UserKey(x[1], x[2], x[3]) IN uk \notin DOMAIN s.mc.user \/ s.mc.user[uk] # t.mc.user[uk]}
      pays == k = "Begin" \/ e.name \in {"masterchef.MsgClaimRewards", "leveragelp.MsgClaimRewards", "leveragelp.MsgClose", "leveragelp.MsgClosePositions", "leveragelp.MsgOpen"}
      Exp(x) == PendingM(s, x[1], x[2], x[3]) ++ (((AccM(s, x[1], x[2]) ** Committed(s, x[3], RewardShareDenom(s, x[1]))) -- DebtM(s, x[1], x[2], x[3])) // E18)
      badCp == {x \in touched : ~(/\ DebtM(t, x[1], x[2], x[3]) = AccM(t, x[1], x[2]) ** Committed(t, x[3], RewardShareDenom(t, x[1]))
                                   /\ (PendingM(t, x[1], x[2], x[3]) = Exp(x) \/ (pays /\ PendingM(t, x[1], x[2], x[3]) = Zero)))}
  IN { Chk("EXT", "EXT.epochs.clock_ticks_exactly_one_epoch_per_due_block", ids # {}, badClock = {}, Bad(badClock)),
       Chk("EXT", "EXT.burner.burns_exactly_the_zero_address_holdings_at_its_epoch_end", ds # {}, badBurn = {}, Bad(badBurn)) }
     \cup (IF k \in {"Tx", "Begin"} THEN
            { Chk("EXT", "EXT.rewards.touched_record_is_checkpointed_against_the_current_accumulator", touched # {}, badCp = {}, Bad(badCp)) }
          ELSE {})
=============================================================================
