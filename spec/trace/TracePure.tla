------------------------------ MODULE TracePure -----------------------------
(* Trace validation of the pricing family: every line is one call of a real *)
(* pool function (harness/pure.go); the bounds of spec/elys/Pricing.tla are *)
(* evaluated on it.  Same output protocol as Trace.tla.                      *)
EXTENDS Pricing, Json, TLCExt

CONSTANT TraceFile
Tr == ndJsonDeserialize(TraceFile)
VARIABLES l, hits
vars == <<l, hits>>
Init == l = 1 /\ hits = {}
Next ==
  /\ l < Len(Tr)
  /\ l' = l + 1
  /\ LET line == Tr[l + 1]
         cs == IF line.kind = "Pure" THEN PricingChecks(line.ev) ELSE {} IN
       /\ \A c \in {c \in cs : ~c.ok} :
             PrintT(<<IF c.kf = "" THEN "FAIL" ELSE "KNOWN", l + 1, c.prop, c.name, c.kf, line.kind, line.ev.name, 0, c.info>>)
       /\ hits' = hits \cup {<<line.ev.name \o (IF line.ev.ok THEN "" ELSE ".refused") \o "." \o line.ev.args.kind, c.name>> : c \in cs}
  /\ (l + 1 = Len(Tr)) => \A h \in hits' : PrintT(<<"HIT", h[1], h[2]>>)
Spec == Init /\ [][Next]_vars
Consumed == TLCGet("stats").diameter = Len(Tr)
=============================================================================
