------------------------------ MODULE TraceRep ------------------------------
(* Trace validation of replica observations (harness/replicas.go).  The lines are sorted by (schedule, kind, height,   *)
(* replica) by the orchestrator, so agreement is checked between neighbouring lines.  Same output protocol as Trace.   *)
EXTENDS Replicas, Json, TLCExt

CONSTANT TraceFile
Tr == ndJsonDeserialize(TraceFile)
VARIABLES l, hits
vars == <<l, hits>>
Init == l = 0 /\ hits = {}
Next ==
  /\ l < Len(Tr)
  /\ l' = l + 1
  /\ LET line == Tr[l + 1]
         prev == IF l = 0 THEN << >> ELSE Tr[l]
         cs == AgreementChecks(line.kind, prev, line.ev) IN
       /\ \A c \in {c \in cs : ~c.ok} :
             PrintT(<<IF c.kf = "" THEN "FAIL" ELSE "KNOWN", l + 1, c.prop, c.name, c.kf, line.kind, line.ev.replica, line.ev.h, c.info>>)
       /\ hits' = hits \cup {<<line.kind, c.name>> : c \in {c \in cs : c.live}}
  /\ (l + 1 = Len(Tr)) => \A h \in hits' : PrintT(<<"HIT", h[1], h[2]>>)
Spec == Init /\ [][Next]_vars
Consumed == TLCGet("stats").diameter - 1 = Len(Tr)
=============================================================================
