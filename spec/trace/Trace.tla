-------------------------------- MODULE Trace -------------------------------
(***************************************************************************)
(* Trace validation: reads an ndjson trace recorded from the real ElysApp  *)
(* (harness/chain.go: one line per observation point with the complete     *)
(* projected abstract state after the step) and evaluates every step       *)
(* contract and every state invariant of the specification on it.          *)
(*                                                                         *)
(* All state variables are bound to the logged values, so there is no      *)
(* search: validation is linear in the trace length.  Failures are printed *)
(* (FAIL / KNOWN lines) and the run continues, so one pass reports every   *)
(* failing check of every property with its event index.                   *)
(***************************************************************************)
EXTENDS Contracts, Json, TLCExt

CONSTANT TraceFile
Tr == ndJsonDeserialize(TraceFile)

VARIABLES l,      \* index of the last consumed trace line
          st,     \* abstract state after line l
          g,      \* ghost state after line l
          hits,   \* set of <<event name, check name>> whose antecedent was true (vacuity measure)
          hasSub, \* sub-step observations (kind "Sub") were seen since the last ordinary line
          sub,    \* the state of the last of them
          failing \* state-invariant checks (<<name, info>>) already failing in the previous state: a broken
                  \* invariant is reported at the step that broke it, not at every later observation

vars == <<l, st, g, hits, failing, hasSub, sub>>

Init == /\ l = 1
        /\ Tr[1].kind = "Reset"
        /\ st = Tr[1].state
        /\ g = GhostStart(Tr[1].state)
        /\ hits = {}
        /\ failing = {}
        /\ hasSub = FALSE
        /\ sub = Tr[1].state

Report(i, line, cs) ==
  \A c \in {c \in cs : ~c.ok /\ <<c.name, c.info>> \notin failing} :
     PrintT(<<IF c.kf = "" THEN "FAIL" ELSE "KNOWN", i, c.prop, c.name, c.kf, line.kind, line.ev.name, line.h, c.info>>)

Next ==
  /\ l < Len(Tr)
  /\ l' = l + 1
  /\ LET line == Tr[l + 1] IN
     IF line.kind = "Sub"
       THEN \* the state between two positions of a sweep / close-positions message: only the sub-step contract is evaluated,
            \* the step it belongs to is judged as a whole at its own line
            /\ st' = st /\ g' = g /\ failing' = failing
            /\ hasSub' = TRUE /\ sub' = line.state
            /\ LET cs == SubChecks(IF hasSub THEN sub ELSE st, line.state) IN
                 /\ Report(l + 1, line, cs)
                 /\ hits' = hits \cup {<<line.ev.name, c.name>> : c \in {c \in cs : c.live}}
     ELSE IF line.kind = "Reset"
       THEN /\ st' = line.state
            /\ hasSub' = FALSE /\ sub' = sub
            /\ g' = GhostStart(line.state)
            /\ LET cs == AllInvChecks(line.state, GhostStart(line.state)) IN
                 /\ Report(l + 1, line, cs)
                 /\ failing' = {<<c.name, c.info>> : c \in {c \in cs : ~c.ok}}
                 /\ hits' = hits
     ELSE IF line.kind = "Halt"
       THEN /\ st' = st /\ g' = g /\ failing' = failing
            /\ hasSub' = FALSE /\ sub' = sub
            /\ LET cs == StepChecks("Halt", line.ev, st, st, g) IN
                 /\ Report(l + 1, line, cs)
                 /\ hits' = hits \cup {<<line.ev.name, c.name>> : c \in cs}
     ELSE /\ st' = line.state
          /\ g' = GhostNext(line.kind, line.ev, st, line.state, g)
          /\ hasSub' = FALSE /\ sub' = sub
          /\ LET ics == AllInvChecks(line.state, g')
                 whole == StepChecks(line.kind, line.ev, st, line.state, g)
                 \* with sub-step observations the third-party-close contract is judged look by look (the last stretch here)
                 cs == (IF hasSub THEN {c \in whole : c.name \notin CoarseThirdParty} \cup SubChecks(sub, line.state) ELSE whole) \cup ics IN
               /\ Report(l + 1, line, cs)
               /\ failing' = {<<c.name, c.info>> : c \in {c \in ics : ~c.ok}}
               /\ hits' = hits \cup {<<line.ev.name, c.name>> : c \in {c \in cs : c.live}}
  /\ (l + 1 = Len(Tr)) => \A h \in hits' : PrintT(<<"HIT", h[1], h[2]>>)

Spec == Init /\ [][Next]_vars

\* The whole trace was consumed (one state per line); anything else is an infrastructure error.
Consumed == TLCGet("stats").diameter = Len(Tr)
=============================================================================
