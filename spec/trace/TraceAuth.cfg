SPECIFICATION Spec
CONSTANT TraceFile = "trace.ndjson"
POSTCONDITION Consumed
CHECK_DEADLOCK FALSE
