------------------------------ MODULE TraceAuth -----------------------------
(* Trace validation of the router enumeration (harness/authority.go): line 1 lists the message types the running app    *)
(* registers, every further line is one delivery.  The last step checks completeness.  Same output protocol as Trace.   *)
EXTENDS Authority, Json, TLCExt

CONSTANT TraceFile
Tr == ndJsonDeserialize(TraceFile)
VARIABLES l, hits, seen
vars == <<l, hits, seen>>
AuthorityTypes == {Tr[1].ev.args.types[i].type : i \in {j \in DOMAIN Tr[1].ev.args.types : Tr[1].ev.args.types[j].class = "authority"}}
Init == l = 1 /\ hits = {} /\ seen = {} /\ Tr[1].kind = "AuthTypes"
Next ==
  /\ l < Len(Tr)
  /\ l' = l + 1
  /\ LET line == Tr[l + 1]
         seen2 == seen \cup {<<line.ev.name, line.ev.args.senderClass, line.ev.args.via>>}
         last == l + 1 = Len(Tr)
         cs == AuthChecks(line.ev) \cup (IF last THEN CompletenessChecks(AuthorityTypes, seen2) ELSE {}) IN
       /\ seen' = seen2
       /\ \A c \in {c \in cs : ~c.ok} :
             PrintT(<<IF c.kf = "" THEN "FAIL" ELSE "KNOWN", l + 1, c.prop, c.name, c.kf, line.kind, line.ev.name, 0, c.info>>)
       /\ hits' = hits \cup {<<line.ev.args.senderClass \o "/" \o line.ev.args.via, c.name>> : c \in {c \in cs : c.live}}
  /\ (l + 1 = Len(Tr)) => \A h \in hits' : PrintT(<<"HIT", h[1], h[2]>>)
Spec == Init /\ [][Next]_vars
Consumed == TLCGet("stats").diameter = Len(Tr)
=============================================================================
