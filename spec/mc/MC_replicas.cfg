SPECIFICATION Spec
CONSTANTS
  Replicas = {"A", "B", "C"}
  MaxHeight = 4
  ReadsMemory = FALSE
  Env = FALSE
INVARIANT Agreement
CHECK_DEADLOCK FALSE
