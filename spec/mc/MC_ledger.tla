----------------------------- MODULE MC_ledger ------------------------------
(***************************************************************************)
(* Exhaustive small-integer model of the "ledger" family: x/bank balances, *)
(* one or two AMM pools (constant product, floor rounding, fee skimmed to  *)
(* a separate account), the commitment custody of pool shares, and the     *)
(* stable-stake vault with bond / unbond.  One action per keeper entry     *)
(* point.  TLC checks on it                                                 *)
(*   (a) every state invariant of spec/elys/Invariants.tla (the abstract   *)
(*       state St has the same shape as the state projected from the real  *)
(*       application),                                                     *)
(*   (b) that every step satisfies the step contracts of                    *)
(*       spec/elys/Contracts.tla (the model refines the contract), and     *)
(*   (c) with `hist` in the state, enumerates every behaviour up to a      *)
(*       bound and prints it as a schedule that the harness replays on     *)
(*       the real ElysApp.                                                  *)
(***************************************************************************)
EXTENDS Contracts, Json, SequencesExt

CONSTANTS Users,        \* e.g. {"u1","u2"}
          PoolIds,      \* e.g. {"1"} or {"1","2"}
          Creator,      \* the user who created the pools (holds the initial shares)
          MaxLen,       \* bound on behaviour length
          Emit,         \* TRUE: print every behaviour of length MaxLen as a schedule
          Alphabet      \* "ledger": every action, plain swap requests; "batch": swap requests in all variants + blocks only

VARIABLES bank, pools, committed, total, vault, now, queue, ev, hist

vars == <<bank, pools, committed, total, vault, now, queue, ev, hist>>

Denoms      == {"uusdc", "uatom"}
ShareOf(p)  == "amm/pool/" \o p
VShare      == "stablestake/share"
Accts       == Users \cup {PoolAddr(p) : p \in PoolIds} \cup {"mod:commitment", "mod:stablestake", "mod:fee_collector", "zero"}
AllD        == Denoms \cup {ShareOf(p) : p \in PoolIds} \cup {VShare, "uelys"}
Sizes       == {1, 2, 3}
SizeClass(z)== CASE z = 1 -> "s1" [] z = 2 -> "s2" [] z = 3 -> "s3"
\* model amounts: reserves start at 120, so the classes 1 / 12 / 40 are ~1 %, 10 %, 33 %
Amt(z)      == CASE z = 1 -> 1 [] z = 2 -> 12 [] z = 3 -> 40

-----------------------------------------------------------------------------
(* The abstract state in the shape of DESIGN.md §3.1 *)
St == [
  chain  |-> [h |-> 0, t |-> now],
  users  |-> SetToSeq(Users),
  bank   |-> bank,
  supply |-> [d \in AllD |-> SumOver(Accts, LAMBDA a : bank[a][d])],
  amm    |-> [pools |-> [p \in PoolIds |->
                [addr |-> PoolAddr(p), treasury |-> "treasury:" \o p, shares |-> pools[p].shares, shareDenom |-> ShareOf(p), useOracle |-> FALSE,
                 assets |-> [d \in Denoms |-> [amt |-> pools[p].res[d], weight |-> 1, weightI |-> 1]]]],
             denomLiq |-> [d \in Denoms |-> SumOver(PoolIds, LAMBDA p : pools[p].res[d])],
             queue |-> Len(queue)],
  commit |-> [total |-> total,
              acct |-> [a \in Users |-> [kind |-> "user", claimed |-> << >>, vesting |-> << >>,
                                         committed |-> [d \in DOMAIN committed[a] |-> [amt |-> committed[a][d], lockups |-> << >>]]]]],
  stable |-> [totalValue |-> vault, depositDenom |-> "uusdc", shareDenom |-> VShare, debts |-> << >>],
  lev    |-> [pools |-> << >>, positions |-> << >>, openCount |-> 0],
  perp   |-> [pools |-> << >>, mtps |-> << >>, openCount |-> 0, tpFlag |-> FALSE],
  acc    |-> << >>,
  oracle |-> [prices |-> << >>, feeders |-> << >>, assetInfo |-> << >>, expiry |-> 0, lifetime |-> 0, lookup |-> << >>, lookupDenom |-> << >>],
  ts     |-> [spot |-> << >>, perp |-> << >>],
  mc     |-> [user |-> << >>, accPerShare |-> << >>, incentives |-> << >>, stablePoolId |-> "32767"] ]

NoGhost == [GhostInit(St) EXCEPT !.batch = [reqs |-> queue, opaque |-> FALSE]]

-----------------------------------------------------------------------------
Ev(name, sender, args, resp) == [name |-> name, sender |-> sender, ok |-> TRUE, log |-> "", stage |-> "msgs", args |-> args, resp |-> resp, abci |-> << >>]

Move(b, from, to, d, x) == [b EXCEPT ![from][d] = @ - x, ![to][d] = @ + x]

Init ==
  /\ bank = [a \in Accts |-> [d \in AllD |->
               IF a \in Users /\ d \in Denoms THEN 200
               ELSE IF \E p \in PoolIds : a = PoolAddr(p) /\ d \in Denoms THEN 120
               ELSE IF a = "mod:commitment" /\ \E p \in PoolIds : d = ShareOf(p) THEN 100
               ELSE 0]]
  /\ pools = [p \in PoolIds |-> [shares |-> 100, res |-> [d \in Denoms |-> 120]]]
  \* the pool creator (first user) holds the initial shares in custody
  /\ committed = [a \in Users |-> IF a = Creator
                                    THEN [d \in {ShareOf(p) : p \in PoolIds} |-> 100] ELSE << >>]
  /\ total = [d \in {ShareOf(p) : p \in PoolIds} |-> 100]
  /\ vault = 0
  /\ now = 0
  /\ queue = << >>
  /\ ev = Ev("Init", "", << >>, << >>)
  /\ hist = << >>

Step(s) == hist' = Append(hist, s)
Common  == Len(hist) < MaxLen

\* x/commitment CommitLiquidTokens / UncommitTokens on the model ledger
CommitTo(c, a, d, x)   == [c EXCEPT ![a] = [dd \in DOMAIN c[a] \cup {d} |-> (IF dd \in DOMAIN c[a] THEN c[a][dd] ELSE 0) + (IF dd = d THEN x ELSE 0)]]
TotalAdd(tt, d, x)     == [dd \in DOMAIN tt \cup {d} |-> (IF dd \in DOMAIN tt THEN tt[dd] ELSE 0) + (IF dd = d THEN x ELSE 0)]
Com(a, d)              == IF d \in DOMAIN committed[a] THEN committed[a][d] ELSE 0

\* amm SwapExactAmountIn: the transaction only dry-runs the swap (out = floor(y * a / (x + a)) on a constant-product pool)
\* and QUEUES the request; the end-of-block batch settles it.
SwapOutFor(ps, p, din, a) ==
  LET dout == CHOOSE d \in Denoms : d # din IN (ps[p].res[dout] * a) \div (ps[p].res[din] + a)
SwapIn(u, p, din, z, lim, rc) ==
  LET dout == CHOOSE d \in Denoms : d # din
      a == Amt(z)
      out == SwapOutFor(pools, p, din, a)
      minOut == IF lim = "tight" THEN out ELSE 1
  IN /\ Common
     /\ Len(queue) < 3
     /\ bank[u][din] >= a /\ out > 0 /\ out < pools[p].res[dout]
     /\ queue' = Append(queue, [kind |-> "in", sender |-> u, rcpt |-> rc, route |-> <<p>>, denoms |-> <<din, dout>>, amt |-> a, limit |-> minOut])
     /\ UNCHANGED <<bank, pools, committed, total, vault, now>>
     /\ ev' = Ev("amm.MsgSwapExactAmountIn", u, [pool |-> p, din |-> din, ain |-> a, dout |-> dout, minOut |-> minOut, rcpt |-> rc,
                                                 route |-> <<p>>, denoms |-> <<din, dout>>], [out |-> out])
     /\ Step([a |-> "swapIn", u |-> u, p |-> p, din |-> din, sz |-> SizeClass(z), limit |-> lim, rcpt |-> rc])

\* amm JoinPool (all assets): deposit rounded up, shares as requested
Join(u, p, z) ==
  LET k == Amt(z)
      S == pools[p].shares
      need == [d \in Denoms |-> ((pools[p].res[d] * k) + S - 1) \div S]
  IN /\ Common
     /\ \A d \in Denoms : bank[u][d] >= need[d]
     /\ bank' = [a \in Accts |-> [d \in AllD |->
                   IF a = u /\ d \in Denoms THEN bank[a][d] - need[d]
                   ELSE IF a = PoolAddr(p) /\ d \in Denoms THEN bank[a][d] + need[d]
                   ELSE IF a = "mod:commitment" /\ d = ShareOf(p) THEN bank[a][d] + k
                   ELSE bank[a][d]]]
     /\ pools' = [pools EXCEPT ![p].shares = @ + k, ![p].res = [d \in Denoms |-> @[d] + need[d]]]
     /\ committed' = CommitTo(committed, u, ShareOf(p), k)
     /\ total' = TotalAdd(total, ShareOf(p), k)
     /\ UNCHANGED <<vault, now, queue>>
     /\ ev' = Ev("amm.MsgJoinPool", u, [pool |-> p, maxIn |-> need, shareOut |-> k, mode |-> "all"], [shareOut |-> k, tokenIn |-> need])
     /\ Step([a |-> "join", u |-> u, p |-> p, sz |-> SizeClass(z), mode |-> "all"])

\* amm ExitPool: payout rounded down; never all shares
Exit(u, p, f) ==
  LET have == Com(u, ShareOf(p))
      k == IF f = "half" THEN have \div 2 ELSE IF f = "third" THEN have \div 3 ELSE have
      S == pools[p].shares
      out == [d \in Denoms |-> (pools[p].res[d] * k) \div S]
  IN /\ Common
     /\ k > 0 /\ k < S
     /\ bank' = [a \in Accts |-> [d \in AllD |->
                   IF a = u /\ d \in Denoms THEN bank[a][d] + out[d]
                   ELSE IF a = PoolAddr(p) /\ d \in Denoms THEN bank[a][d] - out[d]
                   ELSE IF a = "mod:commitment" /\ d = ShareOf(p) THEN bank[a][d] - k
                   ELSE bank[a][d]]]
     /\ pools' = [pools EXCEPT ![p].shares = @ - k, ![p].res = [d \in Denoms |-> @[d] - out[d]]]
     /\ committed' = CommitTo(committed, u, ShareOf(p), 0 - k)
     /\ total' = TotalAdd(total, ShareOf(p), 0 - k)      \* the specification subtracts (the implementation's known finding C12-1 adds)
     /\ UNCHANGED <<vault, now, queue>>
     /\ ev' = Ev("amm.MsgExitPool", u, [pool |-> p, shareIn |-> k, denomOut |-> ""], [tokenOut |-> out])
     /\ Step([a |-> "exit", u |-> u, p |-> p, frac |-> f])

VSupply == SumOver(Accts, LAMBDA a : bank[a][VShare])
\* stablestake Bond: shares = round(amount / rate), rate = totalValue / supply (1 when empty)
Bond(u, z) ==
  LET a == Amt(z) * 5
      sh == IF VSupply = 0 THEN a ELSE ((2 * a * VSupply) + vault) \div (2 * vault)
  IN /\ Common
     /\ bank[u]["uusdc"] >= a
     /\ bank' = [Move(bank, u, "mod:stablestake", "uusdc", a) EXCEPT !["mod:commitment"][VShare] = @ + sh]
     /\ committed' = CommitTo(committed, u, VShare, sh)
     /\ total' = TotalAdd(total, VShare, sh)
     /\ vault' = vault + a
     /\ UNCHANGED <<pools, now, queue>>
     /\ ev' = Ev("stablestake.MsgBond", u, [amt |-> a], << >>)
     /\ Step([a |-> "bond", u |-> u, sz |-> ToString(a * 1000000)])

Unbond(u, f) ==
  LET have == Com(u, VShare)
      k == IF f = "half" THEN have \div 2 ELSE have
      pay == ((2 * k * vault) + VSupply) \div (2 * VSupply)
  IN /\ Common
     /\ k > 0 /\ pay <= bank["mod:stablestake"]["uusdc"]
     /\ bank' = [Move(bank, "mod:stablestake", u, "uusdc", pay) EXCEPT !["mod:commitment"][VShare] = @ - k]
     /\ committed' = CommitTo(committed, u, VShare, 0 - k)
     /\ total' = TotalAdd(total, VShare, 0 - k)
     /\ vault' = vault - pay
     /\ UNCHANGED <<pools, now, queue>>
     /\ ev' = Ev("stablestake.MsgUnbond", u, [shares |-> k], << >>)
     /\ Step([a |-> "unbond", u |-> u, frac |-> f])

\* a third party sends tokens straight to the pool address (outside the protocol)
\* — kept out of the exhaustive alphabet by default; the harness has a dedicated driver for it.

\* End of block: the batch settles the queued requests one at a time in the order `ord` (the implementation picks by
\* store key; the contract must hold for EVERY order, so the model explores all of them).  A request that cannot be
\* honoured when its turn comes (limit, funds) is dropped without any effect.
RECURSIVE Settle(_, _, _, _, _)
Settle(ord, i, b, ps, evs) ==
  IF i > Len(ord) THEN [bank |-> b, pools |-> ps, evs |-> evs]
  ELSE LET r == queue[ord[i]]
           p == r.route[1]  din == r.denoms[1]  dout == r.denoms[2]
           out == SwapOutFor(ps, p, din, r.amt)
           okR == b[r.sender][din] >= r.amt /\ out >= r.limit /\ out > 0 /\ out < ps[p].res[dout]
       IN IF okR
            THEN Settle(ord, i + 1, Move(Move(b, r.sender, PoolAddr(p), din, r.amt), PoolAddr(p), r.rcpt, dout, out),
                        [ps EXCEPT ![p].res[din] = @ + r.amt, ![p].res[dout] = @ - out],
                        Append(evs, [type |-> "token_swapped", mode |-> "EndBlock", sender |-> r.sender, recipient |-> r.rcpt, pool_id |-> p,
                                     in_amt |-> r.amt, in_denom |-> din, out_amt |-> out, out_denom |-> dout]))
            ELSE Settle(ord, i + 1, b, ps, evs)
Orders == {o \in [1..Len(queue) -> 1..Len(queue)] : \A i, j \in 1..Len(queue) : i # j => o[i] # o[j]}
Block ==
  /\ Common
  /\ hist # << >> => hist[Len(hist)].a # "block"
  /\ now' = now + 5
  /\ \E ord \in Orders :
       LET fin == Settle(ord, 1, bank, pools, << >>) IN
       /\ bank' = fin.bank /\ pools' = fin.pools
       /\ ev' = [Ev("EndBlock", "", << >>, << >>) EXCEPT !.abci = fin.evs]
  /\ queue' = << >>
  /\ UNCHANGED <<committed, total, vault>>
  /\ Step([a |-> "block", dt |-> 5])

Next ==
  \/ /\ Alphabet = "ledger"
     /\ \/ \E u \in Users, p \in PoolIds, d \in Denoms, z \in Sizes : SwapIn(u, p, d, z, "loose", u)
        \/ \E u \in Users, p \in PoolIds, z \in Sizes : Join(u, p, z)
        \/ \E u \in Users, p \in PoolIds, f \in {"third", "half", "all"} : Exit(u, p, f)
        \/ \E u \in Users, z \in {1, 3} : Bond(u, z)
        \/ \E u \in Users, f \in {"half", "all"} : Unbond(u, f)
  \/ /\ Alphabet = "batch"
     /\ \/ \E u \in Users, p \in PoolIds, d \in Denoms, z \in Sizes, lim \in {"loose", "tight"}, rc \in Users : SwapIn(u, p, d, z, lim, rc)
        \/ \E u \in Users, p \in PoolIds : Join(u, p, 3)
  \/ Block

Spec == Init /\ [][Next]_vars

-----------------------------------------------------------------------------
(* (a) state invariants of the specification hold in the model *)
InvHolds == \A c \in InvChecks(St, NoGhost) : c.ok

(* (b) every step of the model satisfies the step contracts *)
StepContract == \A c \in StepChecks(IF ev'.name = "EndBlock" THEN "End" ELSE "Tx", ev', St, St', NoGhost) : c.ok
StepOK == [][StepContract]_vars

(* (c) schedule emission *)
EmitSchedule == (Emit /\ Len(hist) = MaxLen) => PrintT(<<"SCHED", ToJson(hist)>>)

Bound == Len(hist) <= MaxLen
View  == <<bank, pools, committed, total, vault, queue>>
=============================================================================
