SPECIFICATION Spec
CONSTANTS
  MaxLen = 4
  Emit = FALSE
  Assets = {"ETH", "ETHZ", "ET", "ETHelys"}
  Sources = {"elys", "band", "Helys", "x"}
  Gaps = {5, 61}
INVARIANTS InvHolds
PROPERTIES StepOK
VIEW View
CHECK_DEADLOCK FALSE
