SPECIFICATION Spec
CONSTANTS
  Users = {"u2", "u3"}
  MaxLen = 3
  Emit = TRUE
  E18 <- ModelOne
INVARIANTS EmitSchedule
CHECK_DEADLOCK FALSE
