------------------------------ MODULE MC_orders -----------------------------
(***************************************************************************)
(* Exhaustive small-integer model of x/tradeshield's pending orders (C20,  *)
(* C17 order scope): wallets, one escrow account per order, spot orders    *)
(* (LIMITSELL / STOPLOSS of uatom against uusdc) and perpetual limit-open  *)
(* orders (LONG / SHORT, uusdc collateral), a market price that moves, and *)
(* the four kinds of requests from arbitrary senders: create, update,      *)
(* cancel (single and batch), execute.  Execution follows the              *)
(* implementation's structure: trigger test, escrow back to the owner,     *)
(* then the swap request is queued (spot) or the position is opened        *)
(* (perpetual) - and the open may FAIL, in which case the whole attempt    *)
(* has no effect.  TLC checks on every reachable state the escrow          *)
(* invariant (InvC20) and on every step the contract C20StepChecks (the    *)
(* model refines the contract; owner-only, trigger-gated, wealth           *)
(* conserving), and enumerates every behaviour up to MaxLen as a schedule. *)
(***************************************************************************)
EXTENDS Contracts, Json, SequencesExt

CONSTANTS Users, MaxLen, Emit

VARIABLES bank, spot, perp, nextSpot, nextPerp, price, positions, ev, hist
vars == <<bank, spot, perp, nextSpot, nextPerp, price, positions, ev, hist>>

Bot == "bot"
EscS(i) == "esc:spot:" \o ToString(i)
EscP(i) == "esc:perp:" \o ToString(i)
Ids == 1..2
Accts == Users \cup {Bot} \cup {EscS(i) : i \in Ids} \cup {EscP(i) : i \in Ids}
Denoms == {"uusdc", "uatom"}
\* trigger rates relative to the market: the order rate is one of these prices
Rates == {4, 5, 6}

SpotRec(i) == [id |-> ToString(i), owner |-> spot[i].owner, type |-> spot[i].type, rate |-> spot[i].rate, denom |-> "uatom", amount |-> spot[i].amount,
               escrow |-> EscS(i), marketPrice |-> price]
PerpRec(i) == [id |-> ToString(i), owner |-> perp[i].owner, side |-> perp[i].side, trigRate |-> perp[i].rate, denom |-> "uusdc", amount |-> perp[i].amount,
               escrow |-> EscP(i), marketPrice |-> price]
St == [
  chain |-> [h |-> 0, t |-> 0],
  users |-> SetToSeq(Users \cup {Bot}),
  bank  |-> bank,
  supply |-> [d \in Denoms |-> FoldSet(LAMBDA a, acc : acc + bank[a][d], 0, Accts)],
  ts    |-> [spot |-> [k \in {ToString(i) : i \in DOMAIN spot} |-> SpotRec(CHOOSE i \in DOMAIN spot : ToString(i) = k)],
             perp |-> [k \in {ToString(i) : i \in DOMAIN perp} |-> PerpRec(CHOOSE i \in DOMAIN perp : ToString(i) = k)]] ]

Move(b, from, to, d, x) == [b EXCEPT ![from][d] = @ - x, ![to][d] = @ + x]
Ev(name, sender, ok, args) == [name |-> name, sender |-> sender, ok |-> ok, log |-> "", stage |-> "msgs", args |-> args, resp |-> << >>]
Common == Len(hist) < MaxLen
Step(s) == hist' = Append(hist, s)
Drop(f, i) == [k \in DOMAIN f \ {i} |-> f[k]]
Put(f, i, v) == [k \in DOMAIN f \cup {i} |-> IF k = i THEN v ELSE f[k]]

Init ==
  /\ bank = [a \in Accts |-> [d \in Denoms |-> IF a \in Users THEN 100 ELSE 0]]
  /\ spot = << >> /\ perp = << >> /\ nextSpot = 1 /\ nextPerp = 1
  /\ price = 5 /\ positions = 0
  /\ ev = Ev("Init", "", TRUE, << >>) /\ hist = << >>

RateClass(r) == IF r < price THEN "0.9" ELSE IF r = price THEN "1" ELSE "1.1"

CreateSpot(u, typ, r) ==
  LET i == nextSpot IN
  /\ Common /\ i \in Ids /\ bank[u]["uatom"] >= 10
  /\ bank' = Move(bank, u, EscS(i), "uatom", 10)
  /\ spot' = Put(spot, i, [owner |-> u, type |-> typ, rate |-> r, amount |-> 10])
  /\ nextSpot' = i + 1
  /\ UNCHANGED <<perp, nextPerp, price, positions>>
  /\ ev' = Ev("tradeshield.MsgCreateSpotOrder", u, TRUE, << >>)
  /\ Step([a |-> "spotOrder", u |-> u, type |-> typ, base |-> "uatom", quote |-> "uusdc", d |-> "uatom", target |-> "uusdc", sz |-> "1000000", mul |-> RateClass(r)])

CreatePerp(u, side, r) ==
  LET i == nextPerp IN
  /\ Common /\ i \in Ids /\ bank[u]["uusdc"] >= 20
  /\ ~\E j \in DOMAIN perp : perp[j].owner = u /\ perp[j].side = side          \* one pending order per owner and direction
  /\ bank' = Move(bank, u, EscP(i), "uusdc", 20)
  /\ perp' = Put(perp, i, [owner |-> u, side |-> side, rate |-> r, amount |-> 20])
  /\ nextPerp' = i + 1
  /\ UNCHANGED <<spot, nextSpot, price, positions>>
  /\ ev' = Ev("tradeshield.MsgCreatePerpetualOpenOrder", u, TRUE, << >>)
  /\ Step([a |-> "perpOrder", u |-> u, p |-> 1, side |-> IF side = "LONG" THEN "long" ELSE "short", sz |-> "1000000", trig |-> RateClass(r), lev |-> "2"])

\* update / cancel: only the owner succeeds; anybody else is refused and nothing changes
UpdateSpot(u, i, r) ==
  LET ok == i \in DOMAIN spot /\ spot[i].owner = u IN
  /\ Common /\ i \in Ids
  /\ spot' = IF ok THEN [spot EXCEPT ![i].rate = r] ELSE spot
  /\ UNCHANGED <<bank, perp, nextSpot, nextPerp, price, positions>>
  /\ ev' = Ev("tradeshield.MsgUpdateSpotOrder", u, ok, << >>)
  /\ Step([a |-> "updateSpot", u |-> u, id |-> i, mul |-> RateClass(r)])

CancelSpots(u, S) ==
  LET ok == S # {} /\ \A i \in S : i \in DOMAIN spot /\ spot[i].owner = u
      pay == FoldSet(LAMBDA i, b : Move(b, EscS(i), u, "uatom", b[EscS(i)]["uatom"]), bank, S) IN
  /\ Common
  /\ bank' = IF ok THEN pay ELSE bank
  /\ spot' = IF ok THEN [k \in DOMAIN spot \ S |-> spot[k]] ELSE spot
  /\ UNCHANGED <<perp, nextSpot, nextPerp, price, positions>>
  /\ ev' = Ev(IF Cardinality(S) = 1 THEN "tradeshield.MsgCancelSpotOrder" ELSE "tradeshield.MsgCancelSpotOrders", u, ok, << >>)
  /\ Step(IF Cardinality(S) = 1 THEN [a |-> "cancelSpot", u |-> u, id |-> CHOOSE i \in S : TRUE]
          ELSE [a |-> "cancelSpots", u |-> u, ids |-> SetToSeq(S)])

CancelPerp(u, i) ==
  LET ok == i \in DOMAIN perp /\ perp[i].owner = u IN
  /\ Common /\ i \in Ids
  /\ bank' = IF ok THEN Move(bank, EscP(i), u, "uusdc", perp[i].amount) ELSE bank
  /\ perp' = IF ok THEN Drop(perp, i) ELSE perp
  /\ UNCHANGED <<spot, nextSpot, nextPerp, price, positions>>
  /\ ev' = Ev("tradeshield.MsgCancelPerpetualOrder", u, ok, << >>)
  /\ Step([a |-> "cancelPerpOrder", u |-> u, id |-> i])

\* permissionless execution request naming one spot and / or one perpetual order
SpotTrig(i) == IF spot[i].type = "LIMITSELL" THEN price >= spot[i].rate ELSE price <= spot[i].rate
PerpTrig(i) == IF perp[i].side = "LONG" THEN price <= perp[i].rate ELSE price >= perp[i].rate
Execute(u, S, P, openOK) ==
  LET sx == {i \in S : SpotTrig(i)}                       \* executed: funds back to the owner, swap request queued
      px == {i \in P : PerpTrig(i) /\ openOK}             \* executed: collateral into a position; a failing open leaves no trace
      b1 == FoldSet(LAMBDA i, b : Move(b, EscS(i), spot[i].owner, "uatom", spot[i].amount), bank, sx)
      b2 == FoldSet(LAMBDA i, b : [b EXCEPT ![EscP(i)]["uusdc"] = @ - perp[i].amount], b1, px)
  IN
  /\ Common /\ S \subseteq DOMAIN spot /\ P \subseteq DOMAIN perp /\ (S \cup P) # {}
  /\ bank' = b2
  /\ spot' = [k \in DOMAIN spot \ sx |-> spot[k]]
  /\ perp' = [k \in DOMAIN perp \ px |-> perp[k]]
  /\ positions' = positions + FoldSet(LAMBDA i, acc : acc + perp[i].amount, 0, px)
  /\ UNCHANGED <<nextSpot, nextPerp, price>>
  /\ ev' = Ev("tradeshield.MsgExecuteOrders", u, TRUE, [spot |-> [j \in 1..Cardinality(S) |-> ToString(SetToSeq(S)[j])], perp |-> [j \in 1..Cardinality(P) |-> ToString(SetToSeq(P)[j])]])
  /\ Step([a |-> "execOrders", u |-> u, spot |-> SetToSeq(S), perp |-> SetToSeq(P)])

Feed(np) ==
  /\ Common /\ np # price
  /\ price' = np
  /\ UNCHANGED <<bank, spot, perp, nextSpot, nextPerp, positions>>
  /\ ev' = Ev("oracle.MsgFeedPrice", "feeder", TRUE, << >>)
  /\ Step([a |-> "feed", asset |-> "ATOM", mul |-> IF np > price THEN "1.2" ELSE "0.8"])

Next ==
  \/ \E u \in Users, typ \in {"LIMITSELL", "STOPLOSS"}, r \in Rates : CreateSpot(u, typ, r)
  \/ \E u \in Users, side \in {"LONG", "SHORT"}, r \in Rates : CreatePerp(u, side, r)
  \/ \E u \in Users, i \in Ids, r \in {4, 6} : UpdateSpot(u, i, r)
  \/ \E u \in Users, S \in SUBSET Ids : CancelSpots(u, S)
  \/ \E u \in Users, i \in Ids : CancelPerp(u, i)
  \/ \E u \in {Bot} \cup Users, S \in SUBSET DOMAIN spot, P \in SUBSET DOMAIN perp, okk \in BOOLEAN :
        Cardinality(S) <= 1 /\ Cardinality(P) <= 1 /\ Execute(u, S, P, okk)
  \/ \E np \in {4, 5, 6} : Feed(np)

Spec == Init /\ [][Next]_vars

-----------------------------------------------------------------------------
\* the money that went into positions is outside wallets and escrows: a ledger for the model's own conservation check
Conservation == \A d \in Denoms : FoldSet(LAMBDA a, acc : acc + bank[a][d], 0, Accts) + (IF d = "uusdc" THEN positions ELSE 0) = 100 * Cardinality(Users)
InvHolds == Conservation /\ \A c \in InvC20(St) : c.ok
\* the End / Begin kinds never occur here; every model step is a transaction (price feeds included)
StepContract == \A c \in C20StepChecks("Tx", ev', St, St') : c.ok
StepOK == [][StepContract]_vars
EmitSchedule == (Emit /\ Len(hist) = MaxLen) => PrintT(<<"SCHED", ToJson(hist)>>)
View == <<bank, spot, perp, nextSpot, nextPerp, price, positions>>
=============================================================================
