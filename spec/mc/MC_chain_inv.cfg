SPECIFICATION Spec
CONSTANTS
  MaxLen = 6
  Emit = FALSE
INVARIANTS NeverHalts
VIEW View
CHECK_DEADLOCK FALSE
