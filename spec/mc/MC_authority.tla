---------------------------- MODULE MC_authority ----------------------------
(* Enumerator of C17: TLC enumerates every (registered message type, sender class, delivery path) combination that the  *)
(* contract requires (spec/elys/Authority.tla, Required) from the type list that the RUNNING application reports        *)
(* (TypesFile, written by `elysdrv authority -list` right before), so a message type added by a later release enters    *)
(* the enumeration without anybody editing a list.                                                                       *)
EXTENDS Authority, Json

CONSTANT TypesFile
Types == JsonDeserialize(TypesFile)
AuthTypes == {Types[i].type : i \in {j \in DOMAIN Types : Types[j].class = "authority"}}
VARIABLE c
Init == c \in AuthTypes \X Required
Next == UNCHANGED c
Emit == PrintT(<<"CASE", ToJson([type |-> c[1], sender |-> c[2][1], via |-> c[2][2]])>>)
=============================================================================
