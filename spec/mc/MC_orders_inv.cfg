SPECIFICATION Spec
CONSTANTS
  Users = {"u2", "u3"}
  MaxLen = 4
  Emit = FALSE
INVARIANTS InvHolds
PROPERTIES StepOK
VIEW View
CHECK_DEADLOCK FALSE
