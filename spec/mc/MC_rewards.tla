----------------------------- MODULE MC_rewards -----------------------------
(***************************************************************************)
(* Exhaustive small-integer model of x/masterchef's reward accounting      *)
(* (C13): one pool, its standing liquidity provider, users who join and    *)
(* leave, fee revenue collected during a block and moved into the module   *)
(* by the end blocker, external incentives funded in advance and released  *)
(* per block, and claims (naming the pool once or twice).  The accumulator *)
(* scheme is the implementation's (hooks_masterchef.go): an accumulated    *)
(* reward per share, and per user a pending amount and a debt, with the    *)
(* user checkpointed by the commitment hooks at every balance change:      *)
(*     pending += (acc * oldBalance - debt) / ONE;  debt = acc * newBalance *)
(* all in fixed point with truncation (the model's ONE is small so that    *)
(* truncation happens all the time).  TLC checks on every reachable state  *)
(* the solvency invariant InvC13 and on every step the contract            *)
(* C13StepChecks (the model refines the contract: only a distribution      *)
(* changes what an account may claim, a block credits no more than was     *)
(* collected or funded for it, a claim pays exactly the credited amount),  *)
(* and enumerates every behaviour up to MaxLen as a schedule.              *)
(***************************************************************************)
EXTENDS Contracts, Json, SequencesExt

CONSTANTS Users, MaxLen, Emit

VARIABLES wallet, shares, acc, info, incs, fees, h, kind, ev, hist
vars == <<wallet, shares, acc, info, incs, fees, h, kind, ev, hist>>

\* the model's fixed-point unit (cfg: E18 <- ModelOne), both for "one share" and for the decimal mantissa
ModelOne == 10
Pool == "2"
D == "uusdc"
SD == "amm/pool/2"
Standing == "lp0"                 \* the pool's creator: its shares never move, so the committed total is never zero
Mod == "mod:masterchef"
Rev == "rev:2"                    \* the pool's revenue address: swap fees wait here for the end blocker
LPs == Users \cup {Standing}
Accts == LPs \cup {Mod, Rev, "trader"}
Total == FoldSet(LAMBDA a, s : s + shares[a], 0, LPs)

UKey(a) == Pool \o "|" \o D \o "|" \o a
St == [
  chain  |-> [h |-> h, t |-> 0],
  users  |-> SetToSeq(Users \cup {"trader"}),
  bank   |-> [a \in Accts |-> [d \in {D} |-> wallet[a]]],
  supply |-> [d \in {D} |-> FoldSet(LAMBDA a, s : s + wallet[a], 0, Accts)],
  commit |-> [total |-> [d \in {SD} |-> Total], vestInfo |-> << >>, enableVestNow |-> FALSE,
              acct |-> [a \in {b \in LPs : shares[b] > 0} |->
                          [kind |-> "user", claimed |-> << >>, vesting |-> << >>,
                           committed |-> [d \in {SD} |-> [amt |-> shares[a], lockups |-> << >>]]]]],
  stable |-> [shareDenom |-> "stablestake/share"],
  mc     |-> [user |-> [k \in {UKey(a) : a \in DOMAIN info} |->
                          LET a == CHOOSE b \in DOMAIN info : UKey(b) = k IN
                          [pool |-> Pool, denom |-> D, user |-> a, pending |-> info[a].pending, debt |-> info[a].debt]],
              accPerShare |-> [k \in {Pool \o "|" \o D} |-> [pool |-> Pool, denom |-> D, acc |-> acc]],
              incentives |-> incs, stablePoolId |-> "32767"] ]

Ev(name, sender, ok) == [name |-> name, sender |-> sender, ok |-> ok, log |-> "", stage |-> "msgs", args |-> << >>, resp |-> << >>]
Common == Len(hist) < MaxLen
Step(s) == hist' = Append(hist, s)
Put(f, i, v) == [k \in DOMAIN f \cup {i} |-> IF k = i THEN v ELSE f[k]]
Rec(a) == IF a \in DOMAIN info THEN info[a] ELSE [pending |-> 0, debt |-> 0]

\* hooks_user_actions.go: AfterDeposit / AfterWithdraw (and ClaimRewards with a zero amount) checkpoint the user
Checkpoint(a, oldBal, newBal) == [pending |-> Rec(a).pending + ((acc * oldBal) - Rec(a).debt) \div ModelOne, debt |-> acc * newBal]

Init ==
  /\ wallet = [a \in Accts |-> IF a \in Users \/ a = "trader" THEN 100 ELSE 0]
  /\ shares = [a \in LPs |-> IF a = Standing THEN 2 ELSE 0]
  /\ acc = 0 /\ info = << >> /\ incs = << >> /\ fees = 0 /\ h = 1
  /\ kind = "Tx" /\ ev = Ev("Init", "", TRUE) /\ hist = << >>

Join(u) ==
  /\ Common /\ shares[u] < 2
  /\ shares' = [shares EXCEPT ![u] = @ + 1]
  /\ info' = Put(info, u, Checkpoint(u, shares[u], shares[u] + 1))
  /\ UNCHANGED <<wallet, acc, incs, fees, h>>
  /\ kind' = "Tx" /\ ev' = Ev("amm.MsgJoinPool", u, TRUE)
  /\ Step([a |-> "join", u |-> u, p |-> 2, sz |-> "s3", mode |-> "all"])

Exit(u, f) ==
  LET k == IF f = "all" THEN shares[u] ELSE 1 IN
  /\ Common /\ shares[u] > 0 /\ (f = "all" \/ shares[u] > 1)
  /\ shares' = [shares EXCEPT ![u] = @ - k]
  /\ info' = Put(info, u, Checkpoint(u, shares[u], shares[u] - k))
  /\ UNCHANGED <<wallet, acc, incs, fees, h>>
  /\ kind' = "Tx" /\ ev' = Ev("amm.MsgExitPool", u, TRUE)
  /\ Step([a |-> "exit", u |-> u, p |-> 2, frac |-> IF f = "all" THEN "all" ELSE "half", d |-> ""])

\* a trade: its fee waits at the pool's revenue address until the end of the block
Trade(r) ==
  /\ Common /\ wallet["trader"] >= r
  /\ wallet' = [wallet EXCEPT !["trader"] = @ - r, ![Rev] = @ + r]
  /\ fees' = fees + r
  /\ UNCHANGED <<shares, acc, info, incs, h>>
  /\ kind' = "Tx" /\ ev' = Ev("amm.MsgSwapExactAmountIn", "trader", TRUE)
  /\ Step([a |-> "swapIn", u |-> "u1", p |-> 2, din |-> "uusdc", sz |-> IF r > 5 THEN "s3" ELSE "s2", limit |-> "loose"])

\* an external incentive: the whole amount is paid in advance, released perBlock for len blocks after the current one
Incentive(u, per, len) ==
  /\ Common /\ Len(incs) < 2 /\ wallet[u] >= per * len
  /\ wallet' = [wallet EXCEPT ![u] = @ - per * len, ![Mod] = @ + per * len]
  /\ incs' = Append(incs, [denom |-> D, perBlock |-> per, from |-> h, to |-> h + len])
  /\ UNCHANGED <<shares, acc, info, fees, h>>
  /\ kind' = "Tx" /\ ev' = Ev("masterchef.MsgAddExternalIncentive", u, TRUE)
  /\ Step([a |-> "incentive", u |-> u, p |-> 2, d |-> D, perBlock |-> IF per > 5 THEN "700000" ELSE "300000", from |-> 0, len |-> len])

\* ClaimRewards over a list naming the pool n times: checkpoint, pay the integer part, clear the pending amount
Claim(u, n) ==
  LET cp   == Checkpoint(u, shares[u], shares[u])
      pay  == cp.pending \div ModelOne
      rest == [pending |-> 0, debt |-> cp.debt] IN
  /\ Common
  /\ wallet' = [wallet EXCEPT ![u] = @ + pay, ![Mod] = @ - pay]
  /\ info' = IF cp.pending > 0 /\ cp.debt = 0 THEN [k \in DOMAIN info \ {u} |-> info[k]] ELSE Put(info, u, IF cp.pending > 0 THEN rest ELSE cp)
  /\ UNCHANGED <<shares, acc, incs, fees, h>>
  /\ kind' = "Tx" /\ ev' = Ev("masterchef.MsgClaimRewards", u, TRUE)
  /\ Step([a |-> "claim", u |-> u, pools |-> IF n = 1 THEN <<2>> ELSE <<2, 2>>])

\* the end blocker: the block's fees move into the module and are credited together with the active incentives' per-block amounts
EndBlock ==
  LET active == {i \in DOMAIN incs : incs[i].from < h + 1 /\ h + 1 <= incs[i].to}
      amount == fees + FoldSet(LAMBDA i, s : s + incs[i].perBlock, 0, active) IN
  /\ Common
  /\ wallet' = [wallet EXCEPT ![Rev] = @ - fees, ![Mod] = @ + fees]
  /\ acc' = acc + (amount * ModelOne * ModelOne) \div Total
  /\ fees' = 0 /\ h' = h + 1
  /\ UNCHANGED <<shares, info, incs>>
  /\ kind' = "End" /\ ev' = Ev("EndBlock", "", TRUE)
  /\ Step([a |-> "block", dt |-> 5])

Next ==
  \/ \E u \in Users : Join(u)
  \/ \E u \in Users, f \in {"all", "one"} : Exit(u, f)
  \/ \E r \in {3, 7} : Trade(r)
  \/ \E u \in Users, per \in {3, 7}, len \in {1, 2} : Incentive(u, per, len)
  \/ \E u \in Users, n \in {1, 2} : Claim(u, n)
  \/ EndBlock

Spec == Init /\ [][Next]_vars

-----------------------------------------------------------------------------
\* the model's own ledger: nothing is created or destroyed
Conservation == FoldSet(LAMBDA a, s : s + wallet[a], 0, Accts) = 100 * (Cardinality(Users) + 1)
InvHolds == Conservation /\ \A c \in InvC13(St, << >>) : c.ok
StepContract == \A c \in C13StepChecks(kind', ev', St, St', << >>) : c.ok
StepOK == [][StepContract]_vars
\* the incentive chain height of the model is the height of the block being built; the contract reads t.chain.h at the End step
EmitSchedule == (Emit /\ Len(hist) = MaxLen) => PrintT(<<"SCHED", ToJson(hist)>>)
View == <<wallet, shares, acc, info, incs, fees, h>>
=============================================================================
