SPECIFICATION Spec
CONSTANTS
  Users = {"u1", "u2"}
  PoolIds = {"1"}
  Creator = "u1"
  MaxLen = 4
  Alphabet = "batch"
  Emit = FALSE
INVARIANTS InvHolds
PROPERTIES StepOK
VIEW View
CHECK_DEADLOCK FALSE
