SPECIFICATION Spec
CONSTANTS
  MaxLen = 3
  Emit = TRUE
  Assets = {"ETH", "ETHZ", "ET", "ETHelys"}
  Sources = {"elys", "band", "Helys", "x"}
  Gaps = {5, 61}
INVARIANTS EmitSchedule
CHECK_DEADLOCK FALSE
