SPECIFICATION Spec
CONSTANTS
  MaxLen = 3
  Emit = TRUE
  Assets = {"ETH", "ETHZ", "ETHe", "ETHelys"}
  Sources = {"elys", "band", "lys", "x"}
  Gaps = {5, 61}
INVARIANTS EmitSchedule
CHECK_DEADLOCK FALSE
