SPECIFICATION Spec
CONSTANTS
  Replicas = {"A", "C"}
  Keys = {"unewa", "unewb"}
  MaxHeight = 3
  CacheOnBranch = FALSE
  Simulates = TRUE
INVARIANT Agreement
INVARIANT CacheCoherent
INVARIANT Emit
CHECK_DEADLOCK FALSE
