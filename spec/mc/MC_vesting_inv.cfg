SPECIFICATION Spec
CONSTANTS
  MaxLen = 6
  Emit = FALSE
  Amounts = {1, 7, 1000003}
  Lengths = {0, 1, 3, 10}
  Steps = {1, 2, 10}
INVARIANTS InvHolds
PROPERTIES StepOK
VIEW View
CHECK_DEADLOCK FALSE
