----------------------------- MODULE MC_vesting -----------------------------
(***************************************************************************)
(* Exhaustive small-integer model of the vesting sub-machine (C14): one    *)
(* account with claimable Eden, its vesting list, the governance-set       *)
(* vesting parameters and the block height.  Every action computes its     *)
(* post-state with the operators of spec/elys/Vesting.tla, i.e. the model  *)
(* IS the specification executed; TLC checks on it                          *)
(*  (a) the meaning of those operators: cumulative release per entry is    *)
(*      monotone, never above the total, equal to the total once the       *)
(*      schedule has elapsed; conservation of Eden (InvC14);               *)
(*  (b) that every step satisfies the step contract C14StepChecks;         *)
(*  (c) with `hist` in the state it enumerates every behaviour up to       *)
(*      MaxLen and prints it as a schedule replayed on the real chain.     *)
(***************************************************************************)
EXTENDS Contracts, Json

CONSTANTS MaxLen, Emit, Amounts, Lengths, Steps

VARIABLES h,      \* height of the block being assembled (transactions land in it)
          eden,   \* claimable Eden of the account
          V,      \* vesting list
          elys,   \* uelys balance of the account
          info,   \* [numBlocks, maxVestings] as set by governance
          gv,     \* ghost ledger (Vesting.tla)
          ev, hist

vars == <<h, eden, V, elys, info, gv, ev, hist>>
U == "u1"
Factor == 90

St == [
  chain  |-> [h |-> h, t |-> 0],
  bank   |-> [a \in {U} |-> [d \in {"uelys"} |-> elys]],
  supply |-> [d \in {"uelys"} |-> elys],
  commit |-> [total |-> << >>, enableVestNow |-> TRUE,
              vestInfo |-> [d \in {"ueden"} |-> [vestingDenom |-> "uelys", numBlocks |-> info.numBlocks, nowFactor |-> Factor, maxVestings |-> info.maxVestings]],
              acct |-> [a \in {U} |-> [kind |-> "user", committed |-> << >>, claimed |-> [d \in {"ueden"} |-> eden], vesting |-> V]]] ]

Ev(name, ok, args) == [name |-> name, sender |-> U, ok |-> ok, log |-> "", stage |-> "msgs", args |-> args, resp |-> << >>]
Common == Len(hist) < MaxLen
Step(s) == hist' = Append(hist, s)

Init ==
  /\ h = 1 /\ eden = 2000020 /\ V = << >> /\ elys = 0
  /\ info = [numBlocks |-> 3, maxVestings |-> 3]
  /\ gv = << >>
  /\ ev = Ev("Init", TRUE, << >>)
  /\ hist = << >>

Vest(x) ==
  LET ok == x <= eden /\ Len(V) < info.maxVestings IN
  /\ Common
  /\ IF ok THEN /\ V' = Append(V, VestEntry(St.commit.vestInfo["ueden"], x, h))
                /\ eden' = eden - x
           ELSE UNCHANGED <<V, eden>>
  /\ UNCHANGED <<h, elys, info>>
  /\ ev' = Ev("commitment.MsgVest", ok, [denom |-> "ueden", amt |-> x])
  /\ Step([a |-> "vest", u |-> U, amt |-> ToString(x)])

Claim ==
  /\ Common
  /\ V' = ClaimPost(V, h)
  /\ elys' = elys + ClaimPay(V, h, "uelys")
  /\ UNCHANGED <<h, eden, info>>
  /\ ev' = Ev("commitment.MsgClaimVesting", TRUE, << >>)
  /\ Step([a |-> "claimVesting", u |-> U])

Cancel(c) ==
  LET out == Outstanding(V)
      x == CASE c = "one" -> 1 [] c = "half" -> out \div 2 [] c = "all" -> out [] c = "over" -> out + 1
      ok == x > 0 /\ CancelFits(V, x) IN
  /\ Common
  /\ x > 0
  /\ IF ok THEN /\ V' = CancelPost(V, x)
                /\ eden' = eden + x
           ELSE UNCHANGED <<V, eden>>
  /\ UNCHANGED <<h, elys, info>>
  /\ ev' = Ev("commitment.MsgCancelVest", ok, [denom |-> "ueden", amt |-> x])
  /\ Step([a |-> "cancelVest", u |-> U, amt |-> ToString(x)])

VestNow(x) ==
  LET ok == x <= eden IN
  /\ Common
  /\ IF ok THEN eden' = eden - x /\ elys' = elys + (x \div Factor) ELSE UNCHANGED <<eden, elys>>
  /\ UNCHANGED <<h, V, info>>
  /\ ev' = Ev("commitment.MsgVestNow", ok, [denom |-> "ueden", amt |-> x])
  /\ Step([a |-> "vestNow", u |-> U, amt |-> ToString(x)])

\* the block is closed and k - 1 empty blocks follow
Advance(k) ==
  /\ Common
  /\ h' = h + k
  /\ UNCHANGED <<eden, V, elys, info>>
  /\ ev' = [Ev("EndBlock", TRUE, << >>) EXCEPT !.sender = ""]
  /\ Step([a |-> "block", n |-> k])

\* governance changes the schedule length / the maximum number of concurrent vestings (between blocks)
Gov(n, m) ==
  /\ Common
  /\ <<n, m>> # <<info.numBlocks, info.maxVestings>>
  /\ info' = [numBlocks |-> n, maxVestings |-> m]
  /\ h' = IF hist # << >> /\ hist[Len(hist)].a \notin {"block", "govVestInfo"} THEN h + 1 ELSE h   \* queued transactions are executed first
  /\ UNCHANGED <<eden, V, elys>>
  /\ ev' = [Ev("commitment.MsgUpdateVestingInfo", TRUE, << >>) EXCEPT !.sender = "gov"]
  /\ Step([a |-> "govVestInfo", num |-> n, max |-> m])

Next ==
  \/ \E x \in Amounts : Vest(x)
  \/ Claim
  \/ \E c \in {"one", "half", "all", "over"} : Cancel(c)
  \/ \E x \in {7, 180} : VestNow(x)
  \/ \E k \in Steps : Advance(k)
  \/ \E n \in Lengths, m \in {1, 3} : Gov(n, m)

Kind == IF ev'.name = "EndBlock" THEN "End" ELSE IF ev'.sender = "gov" THEN "Admin" ELSE "Tx"
NextG == Next /\ gv' = VestGhostNext(Kind, ev', St, St', gv)
Spec == Init /\ [][NextG]_vars

-----------------------------------------------------------------------------
(* (a) what the specification's functions mean *)
EntryOK(v) == 0 <= v.claimed /\ v.claimed < v.total
ReleaseLaws ==
  \A i \in DOMAIN V : LET v == V[i]  c == ClaimEntry(v, h) IN
     /\ EntryOK(v)
     /\ v.claimed <= c.claimed                       \* monotone
     /\ c.claimed <= v.total                         \* never more than the total
     /\ (h - v.start >= v.num => c.claimed = v.total) \* everything once the schedule has elapsed
InvHolds == ReleaseLaws /\ \A c \in InvC14(St, gv) : c.ok

(* (b) every step of the model satisfies the step contract *)
StepContract == \A c \in C14StepChecks(Kind, ev', St, St', gv) : c.ok
StepOK == [][StepContract]_vars

(* (c) schedule emission *)
EmitSchedule == (Emit /\ Len(hist) = MaxLen) => PrintT(<<"SCHED", ToJson(hist)>>)
View == <<h, eden, V, elys, info, gv>>
=============================================================================
