SPECIFICATION Spec
CONSTANTS
  MaxLen = 3
  Emit = TRUE
INVARIANTS EmitSchedule
CHECK_DEADLOCK FALSE
