---------------------------- MODULE MC_positions ----------------------------
(***************************************************************************)
(* Exhaustive small-integer model of the "positions" family: one amm pool  *)
(* (uatom / uusdc, an oracle price for uatom), the stable-stake vault with *)
(* borrow / repay / interest, leveraged-LP positions (borrow, join at the  *)
(* position's own address, shares committed there, pool-level total),      *)
(* perpetual long positions (collateral into the pool, custody and         *)
(* liabilities booked per position and per pool) and the accounted pool.   *)
(* One action per keeper entry point; every token movement goes through    *)
(* the model's bank, so that ALL ledger invariants of                      *)
(* spec/elys/Invariants.tla (C01 C02 C06 C08 C09 C11 C12 C15) are checked  *)
(* on every reachable state - the cross-ledger invariants are jointly      *)
(* satisfiable by a system of this shape and none of them is vacuous.      *)
(* Economics are simplified (integer arithmetic, flat share price); the    *)
(* book-keeping structure - who holds what, which aggregate moves with     *)
(* which record, what a shortfall leaves behind - is the implementation's. *)
(* With `hist` in the state TLC enumerates every behaviour up to MaxLen as *)
(* a schedule for the real chain.                                          *)
(***************************************************************************)
EXTENDS Contracts, Json, SequencesExt

CONSTANTS Users, MaxLen, Emit

VARIABLES bank, res, shares, committed, total, vault, debts, levPos, levTotal, levNext, mtps, perpNext, price, ev, hist
vars == <<bank, res, shares, committed, total, vault, debts, levPos, levTotal, levNext, mtps, perpNext, price, ev, hist>>

Pool == "1"
SD == "amm/pool/1"
VS == "stablestake/share"
Denoms == {"uusdc", "uatom"}
PosAddr(i) == "pos:lev:" \o ToString(i)
Lender == "u4"
Accts == Users \cup {Lender, PoolAddr(Pool), "mod:commitment", "mod:stablestake"} \cup {PosAddr(i) : i \in 1..3}
AllD == Denoms \cup {SD, VS}

Owed(a) == (debts[a].borrowed + debts[a].stacked) - debts[a].paid
SumF(S, F(_)) == FoldSet(LAMBDA x, acc : acc + F(x), 0, S)
LongCust == SumF(DOMAIN mtps, LAMBDA k : mtps[k].custody)
LongLiab == SumF(DOMAIN mtps, LAMBDA k : mtps[k].liab)
LongColl == SumF(DOMAIN mtps, LAMBDA k : mtps[k].collateral)
Com(a, d) == IF a \in DOMAIN committed /\ d \in DOMAIN committed[a] THEN committed[a][d] ELSE 0

-----------------------------------------------------------------------------
St == [
  chain  |-> [h |-> 0, t |-> 0],
  users  |-> SetToSeq(Users \cup {Lender}),
  bank   |-> bank,
  supply |-> [d \in AllD |-> SumF(Accts, LAMBDA a : bank[a][d])],
  amm    |-> [pools |-> [p \in {Pool} |->
                [addr |-> PoolAddr(p), treasury |-> "treasury:1", shares |-> shares, shareDenom |-> SD, useOracle |-> TRUE,
                 assets |-> [d \in Denoms |-> [amt |-> res[d], weight |-> 1, weightI |-> 1]]]],
             denomLiq |-> res, queue |-> 0],
  commit |-> [total |-> total, vestInfo |-> << >>, enableVestNow |-> FALSE,
              acct |-> [a \in DOMAIN committed |->
                          [kind |-> IF a \in {PosAddr(i) : i \in 1..3} THEN "levpos" ELSE "user", claimed |-> << >>, vesting |-> << >>,
                           committed |-> [d \in DOMAIN committed[a] |-> [amt |-> committed[a][d], lockups |-> << >>]]]]],
  stable |-> [totalValue |-> vault, depositDenom |-> "uusdc", shareDenom |-> VS, debts |-> debts],
  lev    |-> [pools |-> [p \in {Pool} |-> [leveragedLp |-> levTotal]], positions |-> levPos, openCount |-> Cardinality(DOMAIN levPos)],
  perp   |-> [pools |-> [p \in {Pool} |->
                [long  |-> [uatom |-> [custody |-> LongCust, liab |-> 0, collateral |-> 0],
                            uusdc |-> [custody |-> 0, liab |-> LongLiab, collateral |-> LongColl]],
                 short |-> [uatom |-> [custody |-> 0, liab |-> 0, collateral |-> 0], uusdc |-> [custody |-> 0, liab |-> 0, collateral |-> 0]]]],
              mtps |-> mtps, openCount |-> Cardinality(DOMAIN mtps), tpFlag |-> FALSE],
  \* the accounted pool as the hooks must leave it: reserve + liabilities - custody
  acc    |-> [p \in {Pool} |-> [total  |-> [uatom |-> res["uatom"] - LongCust, uusdc |-> res["uusdc"] + LongLiab],
                                nonAmm |-> [uatom |-> 0 - LongCust, uusdc |-> LongLiab]]],
  mc     |-> [user |-> << >>, accPerShare |-> << >>, incentives |-> << >>, stablePoolId |-> "32767"],
  oracle |-> [prices |-> << >>, feeders |-> << >>, assetInfo |-> << >>, expiry |-> 0, lifetime |-> 0, lookup |-> << >>, lookupDenom |-> << >>],
  ts     |-> [spot |-> << >>, perp |-> << >>] ]

NoGhost == GhostInit(St)
Move(b, from, to, d, x) == [b EXCEPT ![from][d] = @ - x, ![to][d] = @ + x]
Common == Len(hist) < MaxLen
Step(s) == hist' = Append(hist, s)
Ev(name) == [name |-> name, sender |-> "", ok |-> TRUE]

Init ==
  /\ bank = [a \in Accts |-> [d \in AllD |->
               IF a \in Users /\ d \in Denoms THEN 500
               ELSE IF a = PoolAddr(Pool) /\ d = "uusdc" THEN 1000
               ELSE IF a = PoolAddr(Pool) /\ d = "uatom" THEN 200
               ELSE IF a = "mod:commitment" /\ d = SD THEN 100
               ELSE IF a = "mod:commitment" /\ d = VS THEN 1000
               ELSE IF a = "mod:stablestake" /\ d = "uusdc" THEN 1000
               ELSE 0]]
  /\ res = [uusdc |-> 1000, uatom |-> 200]
  /\ shares = 100
  /\ committed = [a \in {"u1", Lender} |-> IF a = "u1" THEN [d \in {SD} |-> 100] ELSE [d \in {VS} |-> 1000]]
  /\ total = [d \in {SD, VS} |-> IF d = SD THEN 100 ELSE 1000]
  /\ vault = 1000
  /\ debts = << >>
  /\ levPos = << >> /\ levTotal = 0 /\ levNext = 1
  /\ mtps = << >> /\ perpNext = 1
  /\ price = 5
  /\ ev = Ev("Init") /\ hist = << >>

Amt(z) == IF z = "s1" THEN 10 ELSE 40
ShareValue(k) == (k * 2 * res["uusdc"]) \div shares      \* usdc paid for k shares on a single-sided exit (flat model)

\* leveragelp Open: borrow (lev - 1) x collateral from the vault to the position address, join the pool from there,
\* commit the minted shares at the position address, add them to the pool-level total
LevOpen(u, z, lv) ==
  LET c == Amt(z)  b == c * (lv - 1)  a == c + b
      i == levNext  addr == PosAddr(i)
      m == (a * shares) \div (2 * res["uusdc"])
      cash == bank["mod:stablestake"]["uusdc"]
      key == u \o "/" \o ToString(i)
  IN /\ Common /\ i <= 3 /\ m > 0
     /\ bank[u]["uusdc"] >= c /\ cash >= b
     /\ (vault - cash + b) * 10 <= vault * 9                 \* the 90 % lending cap
     /\ bank' = [Move(Move(Move(bank, u, addr, "uusdc", c), "mod:stablestake", addr, "uusdc", b), addr, PoolAddr(Pool), "uusdc", a)
                   EXCEPT !["mod:commitment"][SD] = @ + m]
     /\ res' = [res EXCEPT !["uusdc"] = @ + a]
     /\ shares' = shares + m
     /\ committed' = [x \in DOMAIN committed \cup {addr} |-> IF x = addr THEN [d \in {SD} |-> m] ELSE committed[x]]
     /\ total' = [total EXCEPT ![SD] = @ + m]
     /\ debts' = [x \in DOMAIN debts \cup {addr} |-> IF x = addr THEN [borrowed |-> b, stacked |-> 0, paid |-> 0] ELSE debts[x]]
     /\ levPos' = [x \in DOMAIN levPos \cup {key} |-> IF x = key THEN [owner |-> u, id |-> ToString(i), pool |-> Pool, posAddr |-> addr, lp |-> m,
                                                                      collateral |-> c, liab |-> b] ELSE levPos[x]]
     /\ levTotal' = levTotal + m /\ levNext' = i + 1
     /\ UNCHANGED <<vault, mtps, perpNext, price>>
     /\ ev' = Ev("leveragelp.MsgOpen")
     /\ Step([a |-> "levOpen", u |-> u, p |-> 1, sz |-> z, lev |-> ToString(lv)])

\* leveragelp Close / liquidation of k shares: exit from the position address, repay the vault pro rata (interest first),
\* a shortfall stays behind as debt; the position record goes away when its last share is closed
CloseLev(key, k, who, name, step) ==
  LET pos == levPos[key]  addr == pos.posAddr
      out == ShareValue(k)
      due == (Owed(addr) * k) \div pos.lp
      pay == IF out < due THEN out ELSE due
      intDue == debts[addr].stacked - debts[addr].paid
      payInt == IF pay < intDue THEN pay ELSE intDue
      full == k = pos.lp
  IN /\ Common /\ k > 0 /\ out < res["uusdc"] /\ k < shares
     /\ bank' = [Move(Move(Move(bank, PoolAddr(Pool), addr, "uusdc", out), addr, "mod:stablestake", "uusdc", pay), addr, pos.owner, "uusdc", out - pay)
                   EXCEPT !["mod:commitment"][SD] = @ - k]
     /\ res' = [res EXCEPT !["uusdc"] = @ - out]
     /\ shares' = shares - k
     /\ committed' = [committed EXCEPT ![addr][SD] = @ - k]
     /\ total' = [total EXCEPT ![SD] = @ - k]          \* (the implementation's recorded finding C12-1 adds instead)
     /\ debts' = [debts EXCEPT ![addr].paid = @ + payInt, ![addr].borrowed = @ - (pay - payInt)]
     /\ levPos' = IF full THEN [x \in DOMAIN levPos \ {key} |-> levPos[x]] ELSE [levPos EXCEPT ![key].lp = @ - k]
     /\ levTotal' = levTotal - k
     /\ UNCHANGED <<vault, levNext, mtps, perpNext, price>>
     /\ ev' = Ev(name)
     /\ Step(step)

LevClose(key, f) ==
  LET k == IF f = "half" THEN levPos[key].lp \div 2 ELSE levPos[key].lp IN
  CloseLev(key, k, levPos[key].owner, "leveragelp.MsgClose", [a |-> "levClose", u |-> levPos[key].owner, id |-> levPos[key].id, frac |-> f])

LevHealthLow(key) == ShareValue(levPos[key].lp) * 10 <= Owed(levPos[key].posAddr) * 11
LevLiquidate(key) ==
  /\ LevHealthLow(key)
  /\ CloseLev(key, levPos[key].lp, "bot", "leveragelp.MsgClosePositions",
              [a |-> "levClosePositions", u |-> "bot", liq |-> <<<<levPos[key].owner, levPos[key].id>>>>, sl |-> << >>])

\* perpetual Open (long, usdc collateral): the collateral goes INTO the amm pool, custody and liabilities are only booked
PerpOpen(u, z, lv) ==
  LET c == Amt(z)  liab == c * (lv - 1)  cust == (c * lv) \div price
      i == perpNext  key == u \o "/" \o ToString(i)
  IN /\ Common /\ i <= 3 /\ cust > 0
     /\ bank[u]["uusdc"] >= c
     /\ res["uatom"] >= LongCust + cust                         \* custody must stay backed by the reserve
     /\ bank' = Move(bank, u, PoolAddr(Pool), "uusdc", c)
     /\ res' = [res EXCEPT !["uusdc"] = @ + c]
     /\ mtps' = [x \in DOMAIN mtps \cup {key} |-> IF x = key THEN
                   [owner |-> u, id |-> ToString(i), pool |-> Pool, side |-> "long", collAsset |-> "uusdc", custAsset |-> "uatom", liabAsset |-> "uusdc",
                    tradingAsset |-> "uatom", custody |-> cust, liab |-> liab, collateral |-> c] ELSE mtps[x]]
     /\ perpNext' = i + 1
     /\ UNCHANGED <<shares, committed, total, vault, debts, levPos, levTotal, levNext, price>>
     /\ ev' = Ev("perpetual.MsgOpen")
     /\ Step([a |-> "perpOpen", u |-> u, p |-> 1, side |-> "long", coll |-> "uusdc", sz |-> z, lev |-> ToString(lv)])

\* perpetual Close / liquidation: the custody is released to the pool, the pool pays value - liabilities (never negative)
ClosePerp(key, name, step) ==
  LET m == mtps[key]
      value == m.custody * price
      ret == IF value > m.liab THEN value - m.liab ELSE 0
  IN /\ Common /\ ret < res["uusdc"]
     /\ bank' = Move(bank, PoolAddr(Pool), m.owner, "uusdc", ret)
     /\ res' = [res EXCEPT !["uusdc"] = @ - ret]
     /\ mtps' = [x \in DOMAIN mtps \ {key} |-> mtps[x]]
     /\ UNCHANGED <<shares, committed, total, vault, debts, levPos, levTotal, levNext, perpNext, price>>
     /\ ev' = Ev(name)
     /\ Step(step)
PerpClose(key) == ClosePerp(key, "perpetual.MsgClose", [a |-> "perpClose", u |-> mtps[key].owner, id |-> mtps[key].id, frac |-> "all"])
PerpHealthLow(key) == mtps[key].custody * price * 10 <= mtps[key].liab * 11
PerpLiquidate(key) ==
  /\ PerpHealthLow(key)
  /\ ClosePerp(key, "perpetual.MsgClosePositions", [a |-> "perpClosePositions", u |-> "bot", liq |-> <<<<mtps[key].owner, mtps[key].id>>>>, sl |-> << >>, tp |-> << >>])

\* the oracle price of uatom moves
Feed(m) ==
  LET np == IF m = "0.8" THEN (price * 4) \div 5 ELSE (price * 5) \div 4 IN
  /\ Common /\ np >= 2 /\ np <= 9 /\ np # price
  /\ price' = np
  /\ UNCHANGED <<bank, res, shares, committed, total, vault, debts, levPos, levTotal, levNext, mtps, perpNext>>
  /\ ev' = Ev("oracle.MsgFeedPrice")
  /\ Step([a |-> "feed", asset |-> "ATOM", mul |-> m])

\* a (long) block: interest accrues on every loan - the same amount is added to the vault's value
Block(dt) ==
  LET n == IF dt = 5 THEN 0 ELSE 1
      Intr(a) == (debts[a].borrowed * n) \div 10 IN
  /\ Common
  /\ hist # << >> => hist[Len(hist)].a # "block"
  /\ debts' = [a \in DOMAIN debts |-> [debts[a] EXCEPT !.stacked = @ + Intr(a)]]
  /\ vault' = vault + SumF(DOMAIN debts, LAMBDA a : Intr(a))
  /\ UNCHANGED <<bank, res, shares, committed, total, levPos, levTotal, levNext, mtps, perpNext, price>>
  /\ ev' = Ev("EndBlock")
  /\ Step([a |-> "block", dt |-> dt])

Next ==
  \/ \E u \in Users, z \in {"s1", "s2"}, lv \in {2, 5} : LevOpen(u, z, lv)
  \/ \E k \in DOMAIN levPos, f \in {"half", "all"} : LevClose(k, f)
  \/ \E k \in DOMAIN levPos : LevLiquidate(k)
  \/ \E u \in Users, z \in {"s1", "s2"}, lv \in {2, 5} : PerpOpen(u, z, lv)
  \/ \E k \in DOMAIN mtps : PerpClose(k) \/ PerpLiquidate(k)
  \/ \E m \in {"0.8", "1.25"} : Feed(m)
  \/ \E dt \in {5, 2592000} : Block(dt)

Spec == Init /\ [][Next]_vars

-----------------------------------------------------------------------------
(* every ledger invariant of the specification holds in every reachable state *)
InvHolds == \A c \in InvChecks(St, NoGhost) : c.ok
\* and the ones this family is about are not vacuous: their antecedents become true
IsLive(name) == \E c \in InvChecks(St, NoGhost) : c.name = name /\ c.live
EmitSchedule == (Emit /\ Len(hist) = MaxLen) => PrintT(<<"SCHED", ToJson(hist)>>)
View == <<bank, res, shares, committed, total, vault, debts, levPos, levTotal, levNext, mtps, perpNext, price>>
=============================================================================
