----------------------------- MODULE MC_pricing -----------------------------
(***************************************************************************)
(* Class lattice of the pricing family (C03, C05).  TLC enumerates every   *)
(* class tuple exhaustively (each is one initial state) and prints it; the *)
(* harness instantiates each class with seeded concrete values and calls   *)
(* the real pool functions.  The model is the enumerator: it guarantees    *)
(* that no combination of the listed dimensions is skipped.                *)
(***************************************************************************)
EXTENDS Integers, TLC, Json

Mags    == {"e0", "e3", "e6", "e9", "e12", "e15", "e18", "e21", "e24"}
Ratios  == {"1:1", "1:1e3", "1e3:1", "1:1e9"}
Weights == {<<1, 1>>, <<1, 2>>, <<2, 1>>, <<1, 4>>, <<3, 2>>}
Fees    == {"0", "0.0001", "0.003", "0.02"}
Sizes   == {"one", "dust", "tiny", "1%", "30%", "99.9%", "over"}
Dirs    == {"ab", "ba"}
Exts    == {"1", "2", "100"}
PxDevs  == {"0", "+1%", "-1%", "+50%", "-50%"}
Supplies== {"small", "mid", "large"}
ExitSz  == {"one", "dust", "1%", "half", "allbut1", "all", "over"}
JoinSz  == {"one", "dust", "tiny", "1%", "30%", "x10"}
\* the per-block pool snapshot handed to the pool functions: the live pool (first operation of a block) or the pool as it
\* was before earlier operations of the same block made it larger / smaller
Snaps   == {"live", "smaller", "larger"}

SwapCasesBal == [op : {"swapIn", "swapOut"}, kind : {"bal"}, mag : Mags, ratio : Ratios, w : Weights, fee : Fees, size : Sizes, dir : Dirs]
SwapCasesOra == [op : {"swapIn", "swapOut"}, kind : {"oracle"}, mag : Mags \ {"e0", "e3"}, ratio : {"1:1", "1:1e3"}, w : {<<1, 1>>}, fee : {"0", "0.003", "0.02"},
                 size : Sizes, dir : Dirs, ext : Exts, pxdev : PxDevs, snap : Snaps]
\* oracle pools are built balanced in value at their target weights and then the price of one asset is moved: "x9" / "/9" put a
\* 1:1 pool at 90:10 / 10:90, beyond the 0.3 weight-distance threshold where recovery bonuses / breaking fees change regime
OffDevs == {"0", "+50%", "x9", "/9"}
JoinCases    == [op : {"joinAll", "joinSingle"}, kind : {"bal"}, mag : Mags \ {"e0"}, ratio : {"1:1", "1:1e3", "1e3:1"}, w : Weights,
                 fee : {"0", "0.003", "0.02"}, size : JoinSz, dir : Dirs, supply : Supplies, snap : {"live", "smaller"}]
                \cup
                [op : {"joinAll", "joinSingle"}, kind : {"oracle"}, mag : Mags \ {"e0"}, ratio : {"1:1", "1:1e3", "1e3:1"}, w : Weights,
                 fee : {"0", "0.003", "0.02"}, size : JoinSz, dir : Dirs, supply : Supplies, snap : {"live", "smaller"}, pxdev : {"0", "x9", "/9"}]
ExitCases    == [op : {"exit", "exitSingle"}, kind : {"bal"}, mag : Mags \ {"e0"}, ratio : {"1:1", "1:1e3", "1e3:1"}, w : {<<1, 1>>, <<1, 2>>, <<3, 2>>},
                 fee : {"0", "0.003"}, size : ExitSz, dir : Dirs, supply : Supplies]
                \cup
                [op : {"exit", "exitSingle"}, kind : {"oracle"}, mag : Mags \ {"e0"}, ratio : {"1:1", "1:1e3", "1e3:1"}, w : {<<1, 1>>, <<1, 2>>, <<3, 2>>},
                 fee : {"0", "0.003"}, size : ExitSz, dir : Dirs, supply : Supplies, pxdev : OffDevs]

VARIABLE c
Init == c \in SwapCasesBal \cup SwapCasesOra \cup JoinCases \cup ExitCases
Next == UNCHANGED c
\* oracle pools always use equal weights here (the implementation prices them by oracle, weights are targets)
WellFormed == c.kind = "oracle" => TRUE
Emit == PrintT(<<"CASE", ToJson([x \in DOMAIN c \ {"w"} |-> c[x]] @@ [wA |-> c.w[1], wB |-> c.w[2]])>>)
=============================================================================
