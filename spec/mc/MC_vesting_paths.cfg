SPECIFICATION Spec
CONSTANTS
  MaxLen = 4
  Emit = TRUE
  Amounts = {1, 7, 1000003}
  Lengths = {0, 1, 3, 10}
  Steps = {1, 2, 10}
INVARIANTS EmitSchedule
CHECK_DEADLOCK FALSE
