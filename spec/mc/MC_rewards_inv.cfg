SPECIFICATION Spec
CONSTANTS
  Users = {"u2", "u3"}
  MaxLen = 6
  Emit = FALSE
  E18 <- ModelOne
INVARIANTS InvHolds
PROPERTIES StepOK
VIEW View
CHECK_DEADLOCK FALSE
