SPECIFICATION Spec
CONSTANTS
  Users = {"u1", "u2"}
  PoolIds = {"1"}
  Creator = "u1"
  MaxLen = 3
  Alphabet = "batch"
  Emit = TRUE
INVARIANTS EmitSchedule
CHECK_DEADLOCK FALSE
