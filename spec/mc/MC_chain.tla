------------------------------ MODULE MC_chain ------------------------------
(***************************************************************************)
(* Model of the block life cycle under environment faults (C18): what the  *)
(* environment and the users may do between and inside blocks, and what    *)
(* the chain must do about it - process the block.  The specification of   *)
(* block processing has NO failing branch: `halted` is never set, whatever *)
(* the degraded state (prices expired by age, an epoch or many epochs due, *)
(* fee-collector dust in any denom, tokens or locked accounts at addresses *)
(* the blockers sweep).  A failing USER operation is a stuttering step on  *)
(* everything but the fee.  The real application is checked against this   *)
(* by trace validation: a Halt observation has no counterpart here.        *)
(* The model's second job is to enumerate EVERY sequence of user           *)
(* operations and faults up to MaxLen as a schedule for the real chain     *)
(* (seeded sample in the quick tier), closing each with the blocks that    *)
(* make the pending epochs and expiries happen.                            *)
(***************************************************************************)
EXTENDS Integers, Sequences, FiniteSets, TLC, Json

CONSTANTS MaxLen, Emit

VARIABLES priceAge,   \* blocks since the prices were last fed (they live LifeTime blocks)
          sinceEpoch, \* seconds since the last burner / rewards epoch boundary
          dust,       \* denoms of which the fee collector holds unconverted dust
          swept,      \* addresses that blockers sweep and that hold something unusual (locked account, foreign tokens)
          feeDenom, halted, hist
vars == <<priceAge, sinceEpoch, dust, swept, feeDenom, halted, hist>>

LifeTime == 3
Epoch == 300
FeeDenoms == {"uusdc", "uatom", "uelys", "uusdt", "ibc/UNKNOWN"}
Gaps == {5, 3600, 172800, 3456000}
UserOps == {
  [a |-> "swapIn", u |-> "u2", p |-> 1, din |-> "uusdc", sz |-> "s2", limit |-> "loose"],
  [a |-> "swapIn", u |-> "u3", p |-> 2, din |-> "", sz |-> "one", limit |-> "loose"],
  [a |-> "swapIn", u |-> "u1", route |-> <<1, 2>>, din |-> "uatom", sz |-> "dust", limit |-> "loose"],
  [a |-> "join", u |-> "u3", p |-> 1, sz |-> "one", mode |-> "all", d |-> ""],
  [a |-> "exit", u |-> "u1", p |-> 2, frac |-> "allbut1", d |-> ""],
  [a |-> "exit", u |-> "u1", p |-> 1, frac |-> "most", d |-> "uusdc"],
  [a |-> "levOpen", u |-> "u2", p |-> 1, sz |-> "1000000", lev |-> "9"],
  [a |-> "perpOpen", u |-> "u3", p |-> 1, side |-> "long", coll |-> "uusdc", sz |-> "1000000", lev |-> "5"],
  [a |-> "perpOpen", u |-> "u2", p |-> 1, side |-> "short", coll |-> "uusdc", sz |-> "s1", lev |-> "2"],
  [a |-> "bond", u |-> "u3", sz |-> "1"],
  [a |-> "claim", u |-> "u1", pools |-> <<1, 2, 32767>>],
  [a |-> "incentive", u |-> "u2", p |-> 2, d |-> "uusdc", perBlock |-> "1", from |-> 0, len |-> 6],
  [a |-> "spotOrder", u |-> "u2", type |-> "STOPLOSS", base |-> "uatom", quote |-> "uusdc", d |-> "uatom", target |-> "uusdc", sz |-> "s1", mul |-> "1.1"],
  [a |-> "execOrders", u |-> "bot", spot |-> <<1>>, perp |-> << >>],
  [a |-> "perpClosePositions", u |-> "bot", liq |-> <<<<"u3", 1>>>>],
  [a |-> "levClosePositions", u |-> "bot", liq |-> <<<<"u2", 1>>>>] }
SweptTargets == {"zero", "revenue:1", "revenue:2"}

Init == priceAge = 0 /\ sinceEpoch = 0 /\ dust = {} /\ swept = {} /\ feeDenom = "uusdc" /\ halted = FALSE /\ hist = << >>
Common == Len(hist) < MaxLen /\ ~halted
Step(s) == hist' = Append(hist, s)

\* a user transaction (it may fail: then it changes nothing but the fee, which is paid in the current fee denom)
User(op) ==
  /\ Common
  /\ dust' = IF feeDenom = "uusdc" THEN dust ELSE dust \cup {feeDenom}
  /\ UNCHANGED <<priceAge, sinceEpoch, swept, feeDenom, halted>>
  /\ Step(op)

SetFee(d, amt) == /\ Common /\ d # feeDenom
                  /\ feeDenom' = d /\ UNCHANGED <<priceAge, sinceEpoch, dust, swept, halted>>
                  /\ Step([a |-> "fee", d |-> d, amt |-> amt])

\* somebody parks tokens / a permanently locked vesting account at an address that a blocker sweeps
Park(t, how) ==
  /\ Common /\ <<t, how>> \notin swept
  /\ swept' = swept \cup {<<t, how>>} /\ UNCHANGED <<priceAge, sinceEpoch, dust, feeDenom, halted>>
  /\ Step(IF how = "lock" THEN [a |-> "lockAccount", u |-> "u2", to |-> t, d |-> "uusdc", amt |-> "1"]
          ELSE [a |-> "send", u |-> "u3", to |-> t, d |-> "uatom", sz |-> "one"])

\* a block: with or without fresh prices, after a gap; block processing ALWAYS succeeds (halted stays FALSE):
\* expired prices are dropped, due epochs run (whatever is parked at swept addresses), fee dust is converted when it can be
Block(fed, dt) ==
  /\ Common
  /\ priceAge' = IF fed THEN 0 ELSE priceAge + 1
  /\ sinceEpoch' = (sinceEpoch + dt) % Epoch
  /\ dust' = IF priceAge' <= LifeTime THEN {} ELSE dust
  /\ halted' = FALSE
  /\ UNCHANGED <<swept, feeDenom>>
  /\ hist' = IF fed THEN hist \o <<[a |-> "feedAll"], [a |-> "block", dt |-> dt]>> ELSE Append(hist, [a |-> "block", dt |-> dt])

Next ==
  \/ \E op \in UserOps : User(op)
  \/ \E d \in FeeDenoms, amt \in {1, 2000} : SetFee(d, amt)
  \/ \E t \in SweptTargets, how \in {"lock", "send"} : Park(t, how)
  \/ \E fed \in BOOLEAN, dt \in Gaps : Block(fed, dt)
Spec == Init /\ [][Next]_vars

NeverHalts == ~halted
\* every enumerated sequence is closed by an outage long enough to expire the prices, an epoch boundary and a recovery
Closing == <<[a |-> "block", dt |-> 5], [a |-> "block", dt |-> 5], [a |-> "block", dt |-> 5], [a |-> "block", dt |-> 400],
             [a |-> "feedAll"], [a |-> "block", dt |-> 5], [a |-> "block", dt |-> 5]>>
EmitSchedule == (Emit /\ Len(hist) >= MaxLen) => PrintT(<<"SCHED", ToJson(hist \o Closing)>>)
View == <<priceAge, sinceEpoch, dust, swept, feeDenom, halted, Len(hist)>>
=============================================================================
