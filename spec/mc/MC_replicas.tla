----------------------------- MODULE MC_replicas ----------------------------
(***************************************************************************)
(* Model of C19: replicas of a deterministic state machine with restarts.  *)
(* Every replica holds a committed STORE (what its database persists) and  *)
(* volatile MEMORY (keeper fields, caches, the transient swap queue).      *)
(* Block processing maps (store, memory, block) to a new store and memory; *)
(* a restart keeps the store and resets the memory.  TLC shows             *)
(*   Agreement  replicas at the same height have the same store, hence the *)
(*              same application hash, under every interleaving of block   *)
(*              processing and restarts,                                   *)
(* provided the transition reads only the store and the block.  With       *)
(* ReadsMemory = TRUE (state kept in keeper memory influences the result)  *)
(* or Env = TRUE (wall clock / map order leaks in) TLC produces the        *)
(* counterexample: this is exactly what the replica traces of the real     *)
(* application (spec/trace/TraceRep.tla) are checked against.              *)
(***************************************************************************)
EXTENDS Integers, Sequences, FiniteSets, TLC

CONSTANTS Replicas, MaxHeight, ReadsMemory, Env

VARIABLES store, mem, height
vars == <<store, mem, height>>

Blocks == [h \in 1..MaxHeight |-> h]            \* the agreed block sequence (consensus is outside the model)
EnvValues == IF Env THEN {0, 1} ELSE {0}        \* process-local randomisation visible to the transition

\* the state transition: a hash-like fold of what it reads
Apply(s, m, b, e) == (s * 31 + b * 7 + (IF ReadsMemory THEN m ELSE 0) + e) % 1009

Init == store = [r \in Replicas |-> 1] /\ mem = [r \in Replicas |-> 0] /\ height = [r \in Replicas |-> 0]

Process(r) ==
  /\ height[r] < MaxHeight
  /\ \E e \in EnvValues :
       /\ store' = [store EXCEPT ![r] = Apply(store[r], mem[r], Blocks[height[r] + 1], e)]
       /\ mem' = [mem EXCEPT ![r] = (mem[r] + Blocks[height[r] + 1]) % 5]      \* memory accumulates across blocks
  /\ height' = [height EXCEPT ![r] = @ + 1]

Restart(r) == mem' = [mem EXCEPT ![r] = 0] /\ UNCHANGED <<store, height>>

Next == \E r \in Replicas : Process(r) \/ Restart(r)
Spec == Init /\ [][Next]_vars

Agreement == \A r1, r2 \in Replicas : height[r1] = height[r2] => store[r1] = store[r2]
=============================================================================
