------------------------------ MODULE MC_oracle -----------------------------
(***************************************************************************)
(* Exhaustive model of the price oracle (C16): the price table, the feeder *)
(* registry, block time / height with both expiry rules.  Asset and source *)
(* names are chosen so that they are prefixes and concatenations of one    *)
(* another ("ETH" / "ETHZ" / "ETHelys", "ETHe" ++ "lys" = "ETH" ++ "elys").*)
(* Every action computes its post-state with the operators of              *)
(* spec/elys/Oracle.tla (the model is the specification executed); TLC     *)
(*  (a) checks the lookup laws on every reachable table: a lookup never    *)
(*      answers with another asset's entry, prefers elys, then band, and   *)
(*      finds a price iff a live entry of exactly that asset exists;       *)
(*  (b) checks that every step satisfies C16StepChecks;                    *)
(*  (c) enumerates every behaviour up to MaxLen as a schedule for the real *)
(*      chain.                                                              *)
(***************************************************************************)
EXTENDS Contracts, Json, SequencesExt

CONSTANTS MaxLen, Emit, Assets, Sources, Gaps

VARIABLES tbl, feeders, now, h, n, ev, hist
vars == <<tbl, feeders, now, h, n, ev, hist>>

Expiry == 60
LifeTime == 2
People == {"feeder", "f2", "u1"}

NotFound == [found |-> FALSE, asset |-> "", source |-> "", ts |-> 0, price |-> 0]
Found(r) == [found |-> TRUE, asset |-> r.asset, source |-> r.source, ts |-> r.ts, price |-> r.price]
\* the reference lookup as a function (any admissible answer when only other sources exist)
Lookup(P, x) ==
  IF Live(P, x) = {} THEN NotFound
  ELSE IF FromSrc(P, x, "elys") # {} THEN Found(Newest(FromSrc(P, x, "elys")))
  ELSE IF FromSrc(P, x, "band") # {} THEN Found(Newest(FromSrc(P, x, "band")))
  ELSE Found(CHOOSE r \in Live(P, x) : r = Newest(FromSrc(P, x, r.source)))

St == [
  chain  |-> [h |-> h, t |-> now],
  oracle |-> [prices |-> SetToSeq(tbl), feeders |-> feeders, assetInfo |-> << >>, expiry |-> Expiry, lifetime |-> LifeTime,
              lookup |-> [x \in Assets |-> Lookup(tbl, x)], lookupDenom |-> << >>] ]

Ev(name, sender, ok, args) == [name |-> name, sender |-> sender, ok |-> ok, log |-> "", stage |-> "msgs", args |-> args, resp |-> << >>]
Common == n < MaxLen
Step(s) == hist' = Append(hist, s) /\ n' = n + 1

Init ==
  /\ tbl = {} /\ feeders = [a \in {"feeder", "f2"} |-> a = "feeder"]
  /\ now = 5 /\ h = 1 /\ n = 0
  /\ ev = Ev("Init", "", TRUE, << >>)
  /\ hist = << >>

Active(a) == a \in DOMAIN feeders /\ feeders[a]

Feed(f, a, so) ==
  LET e == Ev("oracle.MsgFeedPrice", f, Active(f), [feeds |-> <<[asset |-> a, source |-> so, price |-> n + 1]>>]) IN
  /\ Common
  /\ tbl' = IF Active(f) THEN FeedPost(tbl, FedEntries(e, now, h)) ELSE tbl
  /\ UNCHANGED <<feeders, now, h>>
  /\ ev' = e
  /\ Step([a |-> "feed", u |-> f, asset |-> a, src |-> so, px |-> ToString(n + 1)])

\* one message feeding two (asset, source) pairs at once
Feed2(a1, s1, a2, s2) ==
  LET e == Ev("oracle.MsgFeedMultiplePrices", "feeder", Active("feeder"),
              [feeds |-> <<[asset |-> a1, source |-> s1, price |-> n + 1], [asset |-> a2, source |-> s2, price |-> n + 2]>>]) IN
  /\ Common
  /\ <<a1, s1>> # <<a2, s2>>
  /\ tbl' = IF Active("feeder") THEN FeedPost(tbl, FedEntries(e, now, h)) ELSE tbl
  /\ UNCHANGED <<feeders, now, h>>
  /\ ev' = e
  /\ Step([a |-> "feedMulti", u |-> "feeder", feeds |-> <<<<a1, s1, ToString(n + 1)>>, <<a2, s2, ToString(n + 2)>>>>])

SetFeeder(f, b) ==
  LET ok == f \in DOMAIN feeders IN
  /\ Common
  /\ feeders' = IF ok THEN [feeders EXCEPT ![f] = b] ELSE feeders
  /\ UNCHANGED <<tbl, now, h>>
  /\ ev' = Ev("oracle.MsgSetPriceFeeder", f, ok, [active |-> b])
  /\ Step([a |-> "setFeeder", u |-> f, active |-> IF b THEN "true" ELSE "false"])

DelFeeder(f) ==
  LET ok == f \in DOMAIN feeders IN
  /\ Common
  /\ feeders' = IF ok THEN [a \in DOMAIN feeders \ {f} |-> feeders[a]] ELSE feeders
  /\ UNCHANGED <<tbl, now, h>>
  /\ ev' = Ev("oracle.MsgDeletePriceFeeder", f, ok, << >>)
  /\ Step([a |-> "delFeeder", u |-> f])

GovAdd(f) ==
  /\ Common
  /\ feeders' = [a \in DOMAIN feeders \cup {f} |-> IF a = f THEN TRUE ELSE feeders[a]]
  /\ UNCHANGED <<tbl, now, h>>
  /\ ev' = Ev("oracle.MsgAddPriceFeeders", "gov", TRUE, << >>)
  /\ Step([a |-> "govAddFeeder", u |-> f])

GovRemove(f) ==
  /\ Common
  /\ feeders' = [a \in DOMAIN feeders \ {f} |-> feeders[a]]
  /\ UNCHANGED <<tbl, now, h>>
  /\ ev' = Ev("oracle.MsgRemovePriceFeeders", "gov", TRUE, << >>)
  /\ Step([a |-> "govRemoveFeeder", u |-> f])

\* end of block h (expiry), the next block opens dt seconds later
Block(dt) ==
  /\ Common
  /\ tbl' = Expire(tbl, now, h, Expiry, LifeTime)
  /\ now' = now + dt /\ h' = h + 1
  /\ UNCHANGED feeders
  /\ ev' = Ev("EndBlock", "", TRUE, << >>)
  /\ Step([a |-> "block", dt |-> dt])

Next ==
  \/ \E a \in Assets, so \in Sources : Feed("feeder", a, so)
  \/ \E f \in {"f2", "u1"} : Feed(f, "ETH", "elys")
  \/ Feed2("ETH", "elys", "ETHe", "lys") \/ Feed2("ETHe", "lys", "ETH", "elys") \/ Feed2("ETHZ", "band", "ETH", "x")
  \/ \E f \in People, b \in BOOLEAN : SetFeeder(f, b)
  \/ DelFeeder("f2") \/ DelFeeder("u1")
  \/ \E f \in {"f2", "u1"} : GovAdd(f)
  \/ \E f \in {"feeder", "f2"} : GovRemove(f)
  \/ \E dt \in Gaps : Block(dt)

Spec == Init /\ [][Next]_vars

-----------------------------------------------------------------------------
Kind == IF ev'.name = "EndBlock" THEN "End" ELSE IF ev'.sender = "gov" THEN "Admin" ELSE "Tx"

\* the End step of the contract compares the table right before and right after expiry at the SAME (time, height)
StEnd == [St' EXCEPT !.chain = St.chain]

(* (a) lookup laws *)
LookupLaws ==
  \A x \in Assets : LET got == Lookup(tbl, x) IN
     /\ got.found <=> \E r \in tbl : r.asset = x
     /\ got.found => got.asset = x
     /\ (got.found /\ \E r \in tbl : r.asset = x /\ r.source = "elys") => got.source = "elys"
     /\ (got.found /\ got.source \notin {"elys", "band"}) => ~\E r \in tbl : r.asset = x /\ r.source \in {"elys", "band"}
     /\ got.found => \A r \in tbl : (r.asset = x /\ r.source = got.source) => r.ts <= got.ts
     /\ RefLookupOK(tbl, x, got)
InvHolds == LookupLaws /\ \A c \in InvC16(St) : c.ok

(* (b) model refines the step contract *)
StepContract == \A c \in C16StepChecks(Kind, ev', St, IF Kind = "End" THEN StEnd ELSE St') : c.ok
StepOK == [][StepContract]_vars

(* (c) schedules *)
EmitSchedule == (Emit /\ n = MaxLen) => PrintT(<<"SCHED", ToJson(hist)>>)
View == <<tbl, feeders, now, h>>
=============================================================================
