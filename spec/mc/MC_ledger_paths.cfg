SPECIFICATION Spec
CONSTANTS
  Users = {"u1", "u2"}
  PoolIds = {"1"}
  Creator = "u1"
  MaxLen = 3
  Alphabet = "ledger"
  Emit = TRUE
INVARIANTS EmitSchedule
CHECK_DEADLOCK FALSE
