INIT Init
NEXT Next
CONSTANT TypesFile = "types.json"
INVARIANT Emit
CHECK_DEADLOCK FALSE
