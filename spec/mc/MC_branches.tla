----------------------------- MODULE MC_branches ----------------------------
(***************************************************************************)
(* Model of the BRANCH discipline behind C19 (and C18's "a failed          *)
(* transaction is rolled back"): every transaction runs on a branch of the *)
(* block's working store; the branch is written only if every message of   *)
(* the transaction succeeds; CheckTx and Simulate run on branches that are *)
(* never written.  A replica also has process MEMORY (here: a read-through *)
(* cache "these keys exist") which no branch discipline protects.          *)
(*                                                                         *)
(* Operations are those of a registry with a duplicate check, the shape of *)
(* oracle MsgCreateAssetInfo / assetprofile MsgAddEntry / pool creation:   *)
(*   create(k)  fails when k is found, otherwise writes k                  *)
(*   fail       a message that always fails (a send the signer cannot pay) *)
(* and a transaction is  <<create k>>,  <<create k, create k>>  (the second *)
(* reads what the first wrote, then the whole transaction is discarded) or *)
(* <<create k, fail>>.                                                     *)
(*                                                                         *)
(* TLC shows Agreement (replicas at one height have one store, under every *)
(* interleaving of block processing, restarts and simulations) when memory *)
(* is filled only from committed reads (CacheOnBranch = FALSE), and finds  *)
(* the counterexample when a read on a BRANCH fills the cache              *)
(* (CacheOnBranch = TRUE): a discarded transaction leaves "k exists" in    *)
(* memory, the never-stopped replica refuses the next create(k), the       *)
(* restarted one accepts it.  The chains of this model are emitted as      *)
(* schedules (CHAIN lines) and replayed on the real replicas by            *)
(* `bin/check C19`: driver steps createAssetInfo / twin / poison, replica  *)
(* A simulating every transaction, replica C restarting after every block. *)
(***************************************************************************)
EXTENDS Integers, Sequences, FiniteSets, TLC, Json

CONSTANTS Replicas, Keys, MaxHeight, CacheOnBranch, Simulates

VARIABLES chain,   \* the agreed sequence of blocks (one transaction each); consensus is outside the model
          store,   \* per replica: keys committed
          cache,   \* per replica: keys its process memory believes to exist
          height
vars == <<chain, store, cache, height>>

Create(k) == <<"create", k>>
Fail      == <<"fail", "">>
TxShapes  == {"single", "twin", "poison"}
TxOf(shape, k) == IF shape = "single" THEN <<Create(k)>> ELSE IF shape = "twin" THEN <<Create(k), Create(k)>> ELSE <<Create(k), Fail>>
Alphabet  == {[shape |-> sh, k |-> k] : sh \in TxShapes, k \in Keys}

\* one message on a branch: st = [br |-> keys visible on the branch, ca |-> cache, ok |-> still succeeding]
RunOp(st, op) ==
  IF ~st.ok THEN st
  ELSE IF op[1] = "fail" THEN [st EXCEPT !.ok = FALSE]
  ELSE LET k == op[2]
           hit == k \in st.ca
           found == hit \/ k \in st.br
           ca1 == IF ~hit /\ k \in st.br /\ CacheOnBranch THEN st.ca \cup {k} ELSE st.ca IN
       IF found THEN [st EXCEPT !.ca = ca1, !.ok = FALSE]
       ELSE [br |-> st.br \cup {k}, ca |-> ca1 \ {k}, ok |-> TRUE]

RECURSIVE RunFrom(_, _, _)
RunFrom(st, tx, i) == IF i > Len(tx) THEN st ELSE RunFrom(RunOp(st, tx[i]), tx, i + 1)
RunTx(s, c, tx) == RunFrom([br |-> s, ca |-> c, ok |-> TRUE], tx, 1)

Init == /\ chain \in [1..MaxHeight -> Alphabet]
        /\ store = [r \in Replicas |-> {}]
        /\ cache = [r \in Replicas |-> {}]
        /\ height = [r \in Replicas |-> 0]

Process(r) ==
  /\ height[r] < MaxHeight
  /\ LET b == chain[height[r] + 1]
         res == RunTx(store[r], cache[r], TxOf(b.shape, b.k)) IN
       /\ store' = [store EXCEPT ![r] = IF res.ok THEN res.br ELSE @]     \* the branch is written only on success
       /\ cache' = [cache EXCEPT ![r] = res.ca]                           \* memory keeps whatever the messages did to it
  /\ height' = [height EXCEPT ![r] = @ + 1]
  /\ UNCHANGED chain

\* CheckTx / Simulate of any transaction of the alphabet: a branch that is never written
Simulate(r) ==
  /\ Simulates
  /\ \E b \in Alphabet : cache' = [cache EXCEPT ![r] = RunTx(store[r], cache[r], TxOf(b.shape, b.k)).ca]
  /\ UNCHANGED <<chain, store, height>>

Restart(r) == cache' = [cache EXCEPT ![r] = {}] /\ UNCHANGED <<chain, store, height>>

Next == \E r \in Replicas : Process(r) \/ Restart(r) \/ Simulate(r)
Spec == Init /\ [][Next]_vars

Agreement     == \A r1, r2 \in Replicas : height[r1] = height[r2] => store[r1] = store[r2]
CacheCoherent == \A r \in Replicas : cache[r] \subseteq store[r]

\* schedule emission: every chain once (printed at the initial states)
Emit == (\A r \in Replicas : height[r] = 0 /\ cache[r] = {}) => PrintT(<<"CHAIN", ToJson([i \in 1..MaxHeight |-> chain[i]])>>)
=============================================================================
