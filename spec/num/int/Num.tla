-------------------------------- MODULE Num ---------------------------------
(* Number abstraction, Int flavour: numbers are TLC integers.  Used by the  *)
(* exhaustive models (small constants).  Same interface as num/big/Num.tla. *)
LOCAL INSTANCE Integers

N(i)    == i
Zero    == 0
One     == 1
a ++ b  == a + b
a -- b  == a - b
a ** b  == a * b
a // b  == a \div b
a %% b  == a % b
a \preceq b == a <= b
a \prec b   == a < b
a \succeq b == a >= b
a \succ b   == a > b
RECURSIVE Pow(_, _)
Pow(a, n)   == IF n = 0 THEN 1 ELSE a * Pow(a, n - 1)
IsNum(a)    == a \in Int
LOCAL INSTANCE TLC
Str(a)      == ToString(a)
Norm(a)     == a
=============================================================================
