-------------------------------- MODULE Num ---------------------------------
(* Number abstraction, BigInt flavour: numbers are canonical decimal strings *)
(* (see lib/BigInt.tla).  Used by the trace specifications, where amounts   *)
(* come from the real chain.  The Int flavour (num/int/Num.tla) has the     *)
(* same interface over TLC integers and is used by the exhaustive models.   *)
EXTENDS BigInt, Integers

N(i)    == BigOfInt(i)          \* TLC integer -> number
Zero    == "0"
One     == "1"
a ++ b  == BigAdd(a, b)
a -- b  == BigSub(a, b)
a ** b  == BigMul(a, b)
a // b  == BigDiv(a, b)         \* floor division
a %% b  == BigMod(a, b)
a \preceq b == BigLe(a, b)
a \prec b   == BigLt(a, b)
a \succeq b == BigLe(b, a)
a \succ b   == BigLt(b, a)
Pow(a, n)   == BigPow(a, n)     \* n is a TLC integer >= 0
IsNum(a)    == a \in STRING
Str(a)      == a
Norm(a)     == BigNorm(a)
=============================================================================
