------------------------------- MODULE BigInt -------------------------------
(***************************************************************************)
(* Arbitrary-precision integers for TLC, represented as decimal STRINGS.   *)
(* TLC's own integers are 32-bit; amounts on the chain are not (1e18-scaled*)
(* pool shares, LegacyDec mantissas, 1e14 balances).                        *)
(*                                                                         *)
(* Every operator below is overridden by the Java class tlc2.module.BigInt *)
(* (spec/lib/java, java.math.BigInteger).  The TLA+ bodies are reference   *)
(* definitions for operands that fit TLC's integers; BigIntSelfTest.tla    *)
(* checks the override against them at setup.                              *)
(***************************************************************************)
LOCAL INSTANCE Integers
LOCAL INSTANCE Sequences
LOCAL INSTANCE TLC

LOCAL Digits == <<"0","1","2","3","4","5","6","7","8","9">>
RECURSIVE NatStr(_)
NatStr(n) == IF n < 10 THEN Digits[n + 1] ELSE NatStr(n \div 10) \o Digits[(n % 10) + 1]
LOCAL IntStr(i) == IF i < 0 THEN "-" \o NatStr(-i) ELSE NatStr(i)

\* The reference bodies only make sense through BigOfInt; operands given as
\* strings cannot be decoded in pure TLA+ (TLC strings are opaque), so the
\* self-test drives them with integer operands converted through BigOfInt.
BigOfInt(i)  == IntStr(i)
BigNorm(a)   == a
BigAdd(a, b) == CHOOSE s \in STRING : TRUE
BigSub(a, b) == CHOOSE s \in STRING : TRUE
BigMul(a, b) == CHOOSE s \in STRING : TRUE
BigDiv(a, b) == CHOOSE s \in STRING : TRUE
BigMod(a, b) == CHOOSE s \in STRING : TRUE
BigPow(a, n) == CHOOSE s \in STRING : TRUE
BigLe(a, b)  == CHOOSE x \in BOOLEAN : TRUE
BigLt(a, b)  == CHOOSE x \in BOOLEAN : TRUE
BigEq(a, b)  == CHOOSE x \in BOOLEAN : TRUE
=============================================================================
