--------------------------- MODULE BigIntSelfTest ---------------------------
(* Run at setup: checks the Java override of BigInt against TLC's native    *)
(* integers on every operand pair of a small grid, and against a handful of *)
(* hand-computed identities beyond 64 bits.                                  *)
EXTENDS Integers, TLC, BigInt
Grid == {-1000003, -4097, -17, -3, -1, 0, 1, 2, 7, 10, 999, 65536, 1000003}
ASSUME \A a \in Grid, b \in Grid :
         /\ BigAdd(BigOfInt(a), BigOfInt(b)) = BigOfInt(a + b)
         /\ BigSub(BigOfInt(a), BigOfInt(b)) = BigOfInt(a - b)
         /\ b # 0 => BigDiv(BigOfInt(a), BigOfInt(b)) = BigOfInt(a \div b)
         /\ b > 0 => BigMod(BigOfInt(a), BigOfInt(b)) = BigOfInt(a % b)
         /\ BigLe(BigOfInt(a), BigOfInt(b)) = (a <= b)
         /\ BigLt(BigOfInt(a), BigOfInt(b)) = (a < b)
         /\ BigEq(BigOfInt(a), BigOfInt(b)) = (a = b)
MulGrid == {-40000, -4097, -17, -3, -1, 0, 1, 2, 7, 10, 999, 32768}
ASSUME \A a \in MulGrid, b \in MulGrid : BigMul(BigOfInt(a), BigOfInt(b)) = BigOfInt(a * b)
ASSUME BigMul("1000000000000000000000000000001", "999999999999999999999999999999")
         = "999999999999999999999999999999999999999999999999999999999999"
ASSUME BigPow("10", 40) = "10000000000000000000000000000000000000000"
ASSUME BigDiv(BigPow("10", 40), "3") = "3333333333333333333333333333333333333333"
ASSUME BigDiv("-7", "2") = "-4" /\ BigMod("-7", "2") = "1"
ASSUME BigSub("0", BigPow("2", 100)) = "-1267650600228229401496703205376"
ASSUME BigNorm("000123") = "123" /\ BigNorm("-0") = "0"
ASSUME BigLt("-1267650600228229401496703205376", "1") /\ ~BigLt("99999999999999999999", "9999999999999999999")
VARIABLE x
Init == x = 0
Next == UNCHANGED x
=============================================================================
