package tlc2.module;

import java.math.BigInteger;
import tlc2.value.impl.BoolValue;
import tlc2.value.impl.IntValue;
import tlc2.value.impl.StringValue;
import tlc2.value.impl.Value;

// TLC module override for spec/lib/BigInt.tla: arbitrary precision integers
// represented as decimal strings ("-12", "0", "340282366920938463463374607431768211456").
public class BigInt {
  public static final long serialVersionUID = 20260926L;

  private static BigInteger b(final Value v) {
    if (v instanceof StringValue) {
      return new BigInteger(((StringValue) v).val.toString());
    }
    if (v instanceof IntValue) {
      return BigInteger.valueOf(((IntValue) v).val);
    }
    throw new IllegalArgumentException("BigInt: expected a decimal string, got " + v);
  }

  private static Value s(final BigInteger x) {
    return new StringValue(x.toString());
  }

  public static Value BigAdd(final Value a, final Value c) { return s(b(a).add(b(c))); }
  public static Value BigSub(final Value a, final Value c) { return s(b(a).subtract(b(c))); }
  public static Value BigMul(final Value a, final Value c) { return s(b(a).multiply(b(c))); }

  // floor division (rounds towards minus infinity), like TLA+ \div
  public static Value BigDiv(final Value a, final Value c) {
    final BigInteger[] qr = b(a).divideAndRemainder(b(c));
    BigInteger q = qr[0];
    if (qr[1].signum() != 0 && (qr[1].signum() != b(c).signum())) {
      q = q.subtract(BigInteger.ONE);
    }
    return s(q);
  }

  public static Value BigMod(final Value a, final Value c) {
    final BigInteger m = b(c);
    BigInteger r = b(a).mod(m.abs());
    if (m.signum() < 0 && r.signum() != 0) {
      r = r.add(m);
    }
    return s(r);
  }

  public static Value BigLe(final Value a, final Value c) { return b(a).compareTo(b(c)) <= 0 ? BoolValue.ValTrue : BoolValue.ValFalse; }
  public static Value BigLt(final Value a, final Value c) { return b(a).compareTo(b(c)) < 0 ? BoolValue.ValTrue : BoolValue.ValFalse; }
  public static Value BigEq(final Value a, final Value c) { return b(a).compareTo(b(c)) == 0 ? BoolValue.ValTrue : BoolValue.ValFalse; }

  public static Value BigPow(final Value a, final Value n) {
    return s(b(a).pow(((IntValue) n).val));
  }

  public static Value BigOfInt(final Value i) { return s(b(i)); }

  // canonical form of a decimal string (strips "+", leading zeros, "-0")
  public static Value BigNorm(final Value a) { return s(b(a)); }
}
