INIT Init
NEXT Next
